package main

// Terms and sorts of the verification-condition language, with light
// simplification and an SMT-LIB2 printer.

import (
	"fmt"
	"math/big"
	"sort"
	"strings"
)

type Sort string

const (
	SInt  Sort = "Int"
	SBool Sort = "Bool"
	SReal Sort = "Real"
	SStr  Sort = "Str"
)

func ArrSort(k, v Sort) Sort { return Sort("(Array " + string(k) + " " + string(v) + ")") }

func (s Sort) IsArray() bool { return strings.HasPrefix(string(s), "(Array ") }

// ArrElem returns the value sort of an array sort.
func (s Sort) ArrElem() Sort {
	str := string(s)
	str = strings.TrimSuffix(strings.TrimPrefix(str, "(Array "), ")")
	// key sort is the first balanced token
	depth := 0
	for i, c := range str {
		switch c {
		case '(':
			depth++
		case ')':
			depth--
		case ' ':
			if depth == 0 {
				return Sort(str[i+1:])
			}
		}
	}
	panic("bad array sort " + string(s))
}

func (s Sort) ArrKey() Sort {
	str := string(s)
	str = strings.TrimSuffix(strings.TrimPrefix(str, "(Array "), ")")
	depth := 0
	for i, c := range str {
		switch c {
		case '(':
			depth++
		case ')':
			depth--
		case ' ':
			if depth == 0 {
				return Sort(str[:i])
			}
		}
	}
	panic("bad array sort " + string(s))
}

type Term struct {
	Op   string // "var", "int", "real", "bool", or an SMT operator / function name
	Val  string // name or literal
	Args []*Term
	Sort Sort
	key  string
}

func (t *Term) Key() string {
	if t.key != "" {
		return t.key
	}
	switch t.Op {
	case "var", "int", "real", "bool":
		t.key = t.Val
		if t.Op == "int" && strings.HasPrefix(t.Val, "-") {
			t.key = "(- " + t.Val[1:] + ")"
		}
		if t.Op == "real" {
			t.key = realLit(t.Val)
		}
	default:
		var sb strings.Builder
		sb.WriteByte('(')
		sb.WriteString(t.Op)
		for _, a := range t.Args {
			sb.WriteByte(' ')
			sb.WriteString(a.Key())
		}
		sb.WriteByte(')')
		t.key = sb.String()
	}
	return t.key
}

func realLit(v string) string {
	neg := strings.HasPrefix(v, "-")
	if neg {
		v = v[1:]
	}
	var s string
	if i := strings.Index(v, "/"); i >= 0 {
		s = "(/ " + v[:i] + ".0 " + v[i+1:] + ".0)"
	} else if strings.Contains(v, ".") {
		s = v
	} else {
		s = v + ".0"
	}
	if neg {
		return "(- " + s + ")"
	}
	return s
}

func (t *Term) String() string { return t.Key() }

func Var(name string, s Sort) *Term { return &Term{Op: "var", Val: name, Sort: s} }
func IntLit(v int64) *Term         { return &Term{Op: "int", Val: fmt.Sprint(v), Sort: SInt} }
func BigLit(v *big.Int) *Term      { return &Term{Op: "int", Val: v.String(), Sort: SInt} }
func RealLit(v string) *Term       { return &Term{Op: "real", Val: v, Sort: SReal} }

var (
	True  = &Term{Op: "bool", Val: "true", Sort: SBool}
	False = &Term{Op: "bool", Val: "false", Sort: SBool}
	Zero  = IntLit(0)
	One   = IntLit(1)
)

func BoolLit(b bool) *Term {
	if b {
		return True
	}
	return False
}

func (t *Term) IsTrue() bool  { return t.Op == "bool" && t.Val == "true" }
func (t *Term) IsFalse() bool { return t.Op == "bool" && t.Val == "false" }
func (t *Term) IntVal() (*big.Int, bool) {
	if t.Op != "int" {
		return nil, false
	}
	b, ok := new(big.Int).SetString(t.Val, 10)
	return b, ok
}

func App(op string, s Sort, args ...*Term) *Term {
	for _, a := range args {
		if a == nil {
			panic("nil arg to " + op)
		}
	}
	return &Term{Op: op, Args: args, Sort: s}
}

func Not(a *Term) *Term {
	if a.IsTrue() {
		return False
	}
	if a.IsFalse() {
		return True
	}
	if a.Op == "not" {
		return a.Args[0]
	}
	return App("not", SBool, a)
}

func And(as ...*Term) *Term {
	var out []*Term
	seen := map[string]bool{}
	for _, a := range as {
		if a.IsTrue() {
			continue
		}
		if a.IsFalse() {
			return False
		}
		if a.Op == "and" {
			for _, b := range a.Args {
				if !seen[b.Key()] {
					seen[b.Key()] = true
					out = append(out, b)
				}
			}
			continue
		}
		if !seen[a.Key()] {
			seen[a.Key()] = true
			out = append(out, a)
		}
	}
	if len(out) == 0 {
		return True
	}
	if len(out) == 1 {
		return out[0]
	}
	return App("and", SBool, out...)
}

func Or(as ...*Term) *Term {
	var out []*Term
	seen := map[string]bool{}
	for _, a := range as {
		if a.IsFalse() {
			continue
		}
		if a.IsTrue() {
			return True
		}
		if a.Op == "or" {
			for _, b := range a.Args {
				if !seen[b.Key()] {
					seen[b.Key()] = true
					out = append(out, b)
				}
			}
			continue
		}
		if !seen[a.Key()] {
			seen[a.Key()] = true
			out = append(out, a)
		}
	}
	if len(out) == 0 {
		return False
	}
	if len(out) == 1 {
		return out[0]
	}
	return App("or", SBool, out...)
}

func Implies(a, b *Term) *Term {
	if a.IsTrue() {
		return b
	}
	if a.IsFalse() || b.IsTrue() {
		return True
	}
	if b.IsFalse() {
		return Not(a)
	}
	return App("=>", SBool, a, b)
}

func Ite(c, a, b *Term) *Term {
	if c.IsTrue() {
		return a
	}
	if c.IsFalse() {
		return b
	}
	if a.Key() == b.Key() {
		return a
	}
	if a.Sort == SBool {
		if a.IsTrue() && b.IsFalse() {
			return c
		}
		if a.IsFalse() && b.IsTrue() {
			return Not(c)
		}
	}
	return App("ite", a.Sort, c, a, b)
}

func Eq(a, b *Term) *Term {
	if a.Sort != b.Sort {
		a, b = coerce(a, b)
	}
	if a.Key() == b.Key() {
		return True
	}
	if av, ok := a.IntVal(); ok {
		if bv, ok := b.IntVal(); ok {
			return BoolLit(av.Cmp(bv) == 0)
		}
	}
	if a.Op == "bool" && b.Op == "bool" {
		return BoolLit(a.Val == b.Val)
	}
	if a.Sort == SBool {
		if b.IsTrue() {
			return a
		}
		if b.IsFalse() {
			return Not(a)
		}
		if a.IsTrue() {
			return b
		}
		if a.IsFalse() {
			return Not(b)
		}
	}
	return App("=", SBool, a, b)
}

func Neq(a, b *Term) *Term { return Not(Eq(a, b)) }

// coerce lifts Int to Real when sorts are mixed.
func coerce(a, b *Term) (*Term, *Term) {
	if a.Sort == SInt && b.Sort == SReal {
		return ToReal(a), b
	}
	if a.Sort == SReal && b.Sort == SInt {
		return a, ToReal(b)
	}
	if a.Sort != b.Sort {
		panic(fmt.Sprintf("sort mismatch: %s : %s vs %s : %s", a, a.Sort, b, b.Sort))
	}
	return a, b
}

func ToReal(a *Term) *Term {
	if a.Sort == SReal {
		return a
	}
	if a.Op == "int" {
		return RealLit(a.Val)
	}
	return App("to_real", SReal, a)
}

func cmp(op string, a, b *Term) *Term {
	a, b = coerce(a, b)
	if av, ok := a.IntVal(); ok {
		if bv, ok := b.IntVal(); ok {
			c := av.Cmp(bv)
			switch op {
			case "<":
				return BoolLit(c < 0)
			case "<=":
				return BoolLit(c <= 0)
			case ">":
				return BoolLit(c > 0)
			case ">=":
				return BoolLit(c >= 0)
			}
		}
	}
	if a.Key() == b.Key() {
		return BoolLit(op == "<=" || op == ">=")
	}
	return App(op, SBool, a, b)
}

func Lt(a, b *Term) *Term { return cmp("<", a, b) }
func Le(a, b *Term) *Term { return cmp("<=", a, b) }
func Gt(a, b *Term) *Term { return cmp(">", a, b) }
func Ge(a, b *Term) *Term { return cmp(">=", a, b) }

func arith(op string, a, b *Term) *Term {
	a, b = coerce(a, b)
	if a.Sort == SInt {
		av, aok := a.IntVal()
		bv, bok := b.IntVal()
		if aok && bok {
			r := new(big.Int)
			switch op {
			case "+":
				return BigLit(r.Add(av, bv))
			case "-":
				return BigLit(r.Sub(av, bv))
			case "*":
				return BigLit(r.Mul(av, bv))
			}
		}
		if bok && bv.Sign() == 0 && (op == "+" || op == "-") {
			return a
		}
		if aok && av.Sign() == 0 && op == "+" {
			return b
		}
		if op == "*" {
			if bok && bv.Cmp(big.NewInt(1)) == 0 {
				return a
			}
			if aok && av.Cmp(big.NewInt(1)) == 0 {
				return b
			}
		}
	}
	return App(op, a.Sort, a, b)
}

func Add(a, b *Term) *Term { return arith("+", a, b) }
func Sub(a, b *Term) *Term { return arith("-", a, b) }
func Mul(a, b *Term) *Term { return arith("*", a, b) }
func Neg(a *Term) *Term {
	if v, ok := a.IntVal(); ok {
		return BigLit(new(big.Int).Neg(v))
	}
	return App("-", a.Sort, a)
}

// RDiv is real division.
func RDiv(a, b *Term) *Term { return App("/", SReal, ToReal(a), ToReal(b)) }

func Select(arr, idx *Term) *Term {
	// read-over-write simplification for syntactically decided indices
	for arr.Op == "store" {
		if arr.Args[1].Key() == idx.Key() {
			return arr.Args[2]
		}
		if distinctLits(arr.Args[1], idx) {
			arr = arr.Args[0]
			continue
		}
		break
	}
	return App("select", arr.Sort.ArrElem(), arr, idx)
}

func distinctLits(a, b *Term) bool {
	av, aok := a.IntVal()
	bv, bok := b.IntVal()
	if aok && bok && av.Cmp(bv) != 0 {
		return true
	}
	// a reference allocated by the function itself (ref_*!N) differs from every value that
	// was already denotable before the allocation: all fresh symbols of the other term are older
	if n, ok := freshRefSeq(a); ok && maxSeq(b) < n {
		return true
	}
	if n, ok := freshRefSeq(b); ok && maxSeq(a) < n {
		return true
	}
	return false
}

func freshRefSeq(t *Term) (int, bool) {
	if t.Op != "var" || !strings.HasPrefix(t.Val, "ref_") {
		return 0, false
	}
	i := strings.LastIndex(t.Val, "!")
	if i < 0 {
		return 0, false
	}
	n := 0
	for _, c := range t.Val[i+1:] {
		if c < '0' || c > '9' {
			return 0, false
		}
		n = n*10 + int(c-'0')
	}
	return n, true
}

var maxSeqCache = map[*Term]int{}

// maxSeq: the largest creation number among the fresh symbols of a term (names end in !N);
// entry symbols count as 0. Bound variables and literals count as "unknown" (very large) when
// they could denote anything.
func maxSeq(t *Term) int {
	if v, ok := maxSeqCache[t]; ok {
		return v
	}
	m := 0
	switch t.Op {
	case "var":
		if strings.HasPrefix(t.Val, "bv!") {
			m = 1 << 30
		} else if i := strings.LastIndex(t.Val, "!"); i >= 0 {
			n := 0
			ok := true
			for _, c := range t.Val[i+1:] {
				if c < '0' || c > '9' {
					ok = false
					break
				}
				n = n*10 + int(c-'0')
			}
			if ok {
				m = n
			}
		}
	case "int", "real", "bool":
	default:
		for _, a := range t.Args {
			if s := maxSeq(a); s > m {
				m = s
			}
		}
	}
	if len(maxSeqCache) > 200000 {
		maxSeqCache = map[*Term]int{}
	}
	maxSeqCache[t] = m
	return m
}

func Store(arr, idx, v *Term) *Term {
	if v.Sort != arr.Sort.ArrElem() {
		if arr.Sort.ArrElem() == SReal && v.Sort == SInt {
			v = ToReal(v)
		} else {
			panic(fmt.Sprintf("store sort mismatch: %s into %s", v.Sort, arr.Sort))
		}
	}
	return App("store", arr.Sort, arr, idx, v)
}

func pow2(n uint) *big.Int { return new(big.Int).Lsh(big.NewInt(1), n) }

// ---------------------------------------------------------------------------
// declarations

type FuncDecl struct {
	Name string
	Args []Sort
	Ret  Sort
	Def  string // non-empty: a define-fun body with parameters x0..xn
}

type Datatype struct {
	Name   string
	Fields []string // accessor names
	Sorts  []Sort
}

// Universe collects the declarations needed to print a VC.
type Universe struct {
	funcs     map[string]*FuncDecl
	datatypes map[string]*Datatype
	dtOrder   []string
	sorts     map[string]bool // uninterpreted sorts
	extraAxioms string
	funcAxioms  map[string]string // axioms printed when the function is used
}

func NewUniverse() *Universe {
	u := &Universe{funcs: map[string]*FuncDecl{}, datatypes: map[string]*Datatype{}, sorts: map[string]bool{}, funcAxioms: map[string]string{}}
	u.sorts["Str"] = true
	return u
}

func (u *Universe) DeclFunc(name string, ret Sort, args ...Sort) {
	if _, ok := u.funcs[name]; !ok {
		u.funcs[name] = &FuncDecl{Name: name, Args: args, Ret: ret}
	}
}

func (u *Universe) DefFunc(name string, ret Sort, body string, args ...Sort) {
	u.funcs[name] = &FuncDecl{Name: name, Args: args, Ret: ret, Def: body}
}

func (u *Universe) DeclDatatype(name string, fields []string, sorts []Sort) *Datatype {
	if d, ok := u.datatypes[name]; ok {
		return d
	}
	d := &Datatype{Name: name, Fields: fields, Sorts: sorts}
	u.datatypes[name] = d
	u.dtOrder = append(u.dtOrder, name)
	return d
}

// Script renders a complete SMT-LIB2 query: assumptions plus the negated goal.
func (u *Universe) Script(logicOpts string, assumptions []*Term, goal *Term, wantModel bool) string {
	var sb strings.Builder
	sb.WriteString(logicOpts)
	for s := range u.sorts {
		fmt.Fprintf(&sb, "(declare-sort %s 0)\n", s)
	}
	// collect what is used
	usedVars := map[string]Sort{}
	usedFuncs := map[string]bool{}
	usedDT := map[string]bool{}
	var walk func(t *Term)
	seen := map[*Term]bool{}
	var noteSort func(s Sort)
	noteSort = func(s Sort) {
		if s.IsArray() {
			noteSort(s.ArrKey())
			noteSort(s.ArrElem())
			return
		}
		if d, ok := u.datatypes[string(s)]; ok && !usedDT[d.Name] {
			usedDT[d.Name] = true
			for _, fs := range d.Sorts {
				noteSort(fs)
			}
		}
	}
	walk = func(t *Term) {
		if seen[t] {
			return
		}
		seen[t] = true
		noteSort(t.Sort)
		switch t.Op {
		case "var":
			if !strings.HasPrefix(t.Val, "bv!") {
				usedVars[t.Val] = t.Sort
			}
		case "int", "real", "bool":
		default:
			if _, ok := u.funcs[t.Op]; ok {
				usedFuncs[t.Op] = true
			}
			for _, a := range t.Args {
				walk(a)
			}
		}
	}
	all := append([]*Term{}, assumptions...)
	if goal != nil {
		all = append(all, goal)
	}
	for _, t := range all {
		walk(t)
	}
	if usedFuncs["dw"] || usedFuncs["slen"] {
		usedFuncs["dw"] = true
		usedFuncs["slen"] = true
	}
	for _, fn := range keys(usedFuncs) {
		f := u.funcs[fn]
		for _, s := range f.Args {
			noteSort(s)
		}
		noteSort(f.Ret)
	}
	for _, n := range u.dtOrder {
		if !usedDT[n] {
			continue
		}
		d := u.datatypes[n]
		fmt.Fprintf(&sb, "(declare-datatypes ((%s 0)) (((mk_%s", d.Name, d.Name)
		for i, f := range d.Fields {
			fmt.Fprintf(&sb, " (%s %s)", f, d.Sorts[i])
		}
		sb.WriteString("))))\n")
	}
	for _, fn := range keys(usedFuncs) {
		f := u.funcs[fn]
		if f.Def != "" {
			fmt.Fprintf(&sb, "(define-fun %s (", f.Name)
			for i, s := range f.Args {
				fmt.Fprintf(&sb, "(x%d %s)", i, s)
			}
			fmt.Fprintf(&sb, ") %s %s)\n", f.Ret, f.Def)
		} else {
			ss := make([]string, len(f.Args))
			for i, s := range f.Args {
				ss[i] = string(s)
			}
			fmt.Fprintf(&sb, "(declare-fun %s (%s) %s)\n", f.Name, strings.Join(ss, " "), f.Ret)
		}
	}
	vn := make([]string, 0, len(usedVars))
	for n := range usedVars {
		vn = append(vn, n)
	}
	sort.Strings(vn)
	for _, n := range vn {
		fmt.Fprintf(&sb, "(declare-const %s %s)\n", n, usedVars[n])
	}
	if usedFuncs["dw"] || usedFuncs["slen"] {
		if _, ok := u.funcs["dw"]; ok {
			sb.WriteString(u.extraAxioms)
		}
	}
	for _, fn := range keys(usedFuncs) {
		if ax, ok := u.funcAxioms[fn]; ok {
			if fn == "sconcat" && !usedVarsHas(usedVars, "str!empty") {
				sb.WriteString("(declare-const str!empty Str)\n")
			}
			sb.WriteString(ax)
		}
	}
	for _, a := range assumptions {
		fmt.Fprintf(&sb, "(assert %s)\n", a.Key())
	}
	if goal != nil {
		fmt.Fprintf(&sb, "(assert (not %s))\n", goal.Key())
	}
	sb.WriteString("(check-sat)\n")
	if wantModel {
		sb.WriteString("(get-model)\n")
	}
	return sb.String()
}

func keys(m map[string]bool) []string {
	out := make([]string, 0, len(m))
	for k := range m {
		out = append(out, k)
	}
	sort.Strings(out)
	return out
}

// substVars replaces variables by terms (used for quantifier-free instantiation of
// spec-function bodies).
func substVars(t *Term, m map[string]*Term) *Term {
	switch t.Op {
	case "var":
		if r, ok := m[t.Val]; ok {
			return r
		}
		return t
	case "int", "real", "bool":
		return t
	}
	changed := false
	args := make([]*Term, len(t.Args))
	for i, a := range t.Args {
		args[i] = substVars(a, m)
		if args[i] != a {
			changed = true
		}
	}
	if !changed {
		return t
	}
	return &Term{Op: t.Op, Val: t.Val, Args: args, Sort: t.Sort}
}

func usedVarsHas(m map[string]Sort, k string) bool { _, ok := m[k]; return ok }
