package main

// Solver portfolio: z3-new (5.x), cvc5, z3 (4.8). Each VC is one SMT-LIB2 file.

import (
	"fmt"
	"os"
	"os/exec"
	"path/filepath"
	"regexp"
	"strings"
)

type SolveResult struct {
	Status  string // "unsat", "sat", "unknown", "timeout", "error"
	Backend string
	TimeS   float64
	Model   map[string]string
	Raw     string
	Tried   []string
}

type backend struct {
	name string
	argv func(file string, timeoutS int) []string
	pre  string // logic / option prelude
}

var backends = []backend{
	{"z3-new", func(f string, t int) []string { return []string{"z3-new", fmt.Sprintf("-T:%d", t), f} }, ""},
	{"cvc5", func(f string, t int) []string {
		return []string{"cvc5", "--produce-models", fmt.Sprintf("--tlimit=%d", t*1000), f}
	}, "(set-logic ALL)\n"},
	{"z3", func(f string, t int) []string { return []string{"z3", fmt.Sprintf("-T:%d", t), f} }, ""},
}

func haveBackend(name string) bool {
	_, err := exec.LookPath(name)
	return err == nil
}

func runBackend(b backend, script string, file string, timeoutS int) SolveResult {
	full := b.pre + script
	path := file + "." + b.name + ".smt2"
	if err := os.MkdirAll(filepath.Dir(path), 0o755); err != nil {
		return SolveResult{Status: "error", Backend: b.name, Raw: err.Error()}
	}
	if err := os.WriteFile(path, []byte(full), 0o644); err != nil {
		return SolveResult{Status: "error", Backend: b.name, Raw: err.Error()}
	}
	argv := b.argv(path, timeoutS)
	raw, el, timedOut := spawn(argv, timeoutS+2)
	first := strings.TrimSpace(strings.SplitN(raw, "\n", 2)[0])
	res := SolveResult{Backend: b.name, TimeS: el, Raw: raw}
	switch {
	case first == "unsat":
		res.Status = "unsat"
		if os.Getenv("GOWP_KEEP") == "" {
			os.Remove(path)
		}
	case first == "sat":
		res.Status = "sat"
		res.Model = parseModel(raw)
	case first == "unknown":
		res.Status = "unknown"
	case first == "timeout" || timedOut || strings.Contains(raw, "interrupted by timeout") || strings.Contains(first, "timeout"):
		res.Status = "timeout"
	default:
		res.Status = "error"
	}
	return res
}

// Solve tries the back ends in order; the first definite answer (sat/unsat) wins.
func Solve(script, file string, timeoutS int, order []string) SolveResult {
	var last SolveResult
	var tried []string
	for _, name := range order {
		for _, b := range backends {
			if b.name != name || !haveBackend(b.name) {
				continue
			}
			r := runBackend(b, script, file, timeoutS)
			tried = append(tried, fmt.Sprintf("%s:%s:%.2fs", b.name, r.Status, r.TimeS))
			if r.Status == "unsat" || r.Status == "sat" {
				r.Tried = tried
				return r
			}
			if last.Status == "" || r.Status != "error" {
				last = r
			}
		}
	}
	last.Tried = tried
	if last.Status == "" {
		last.Status = "error"
		last.Raw = "no solver available"
	}
	return last
}

// SolveAll (thorough tier) asks every available back end and cross-checks the definite
// answers: two solvers that disagree on sat/unsat yield status "disagree", which the caller
// treats as not discharged.
func SolveAll(script, file string, timeoutS int, order []string) SolveResult {
	var first, last SolveResult
	var tried []string
	definite := map[string]string{}
	for _, name := range order {
		for _, b := range backends {
			if b.name != name || !haveBackend(b.name) {
				continue
			}
			r := runBackend(b, script, file, timeoutS)
			tried = append(tried, fmt.Sprintf("%s:%s:%.2fs", b.name, r.Status, r.TimeS))
			if r.Status == "unsat" || r.Status == "sat" {
				definite[b.name] = r.Status
				if first.Status == "" {
					first = r
				}
			} else if last.Status == "" || r.Status != "error" {
				last = r
			}
		}
	}
	res := first
	if res.Status == "" {
		res = last
		if res.Status == "" {
			res.Status = "error"
			res.Raw = "no solver available"
		}
	}
	seen := ""
	for _, st := range definite {
		if seen != "" && st != seen {
			res.Status = "disagree"
			res.Model = nil
		}
		seen = st
	}
	res.Tried = tried
	return res
}

var defFunRe = regexp.MustCompile(`\(define-fun\s+(\S+)\s+\(\)\s+`)

// parseModel extracts constant interpretations (define-fun name () Sort value).
func parseModel(raw string) map[string]string {
	m := map[string]string{}
	idxs := defFunRe.FindAllStringSubmatchIndex(raw, -1)
	for _, loc := range idxs {
		name := raw[loc[2]:loc[3]]
		rest := raw[loc[1]:]
		sortStr := readSexp(rest)
		rest = strings.TrimLeft(rest, " \n\t")
		rest = rest[len(sortStr):]
		val := readSexp(rest)
		m[name] = normalizeVal(val)
	}
	return m
}

func readSexp(s string) string {
	s = strings.TrimLeft(s, " \n\t")
	if s == "" {
		return ""
	}
	if s[0] != '(' {
		end := strings.IndexAny(s, " \n\t)")
		if end < 0 {
			return s
		}
		return s[:end]
	}
	depth := 0
	for i, c := range s {
		if c == '(' {
			depth++
		} else if c == ')' {
			depth--
			if depth == 0 {
				return s[:i+1]
			}
		}
	}
	return s
}

func normalizeVal(v string) string {
	v = strings.Join(strings.Fields(v), " ")
	if strings.HasPrefix(v, "(- ") && strings.HasSuffix(v, ")") {
		inner := strings.TrimSuffix(strings.TrimPrefix(v, "(- "), ")")
		if !strings.ContainsAny(inner, "( ") {
			return "-" + inner
		}
	}
	return v
}
