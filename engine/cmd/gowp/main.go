package main

import (
	"flag"
	"fmt"
	"os"
	"strconv"
)

func main() {
	if len(os.Args) < 2 {
		fmt.Fprintln(os.Stderr, "usage: gowp check --prop <id> [--tier quick|thorough] [--repo /repo] [--verif /verif]")
		os.Exit(2)
	}
	switch os.Args[1] {
	case "solverd":
		solverdMain()
		return
	case "check", "ledger":
		startSpawner()
		fs := flag.NewFlagSet("check", flag.ExitOnError)
		prop := fs.String("prop", "", "property id")
		tier := fs.String("tier", "", "quick or thorough")
		repo := fs.String("repo", "/repo", "repository")
		verif := fs.String("verif", "/verif", "verification directory")
		verbose := fs.Bool("v", false, "verbose")
		only := fs.String("only", "", "restrict to functions whose name contains this")
		fs.Parse(os.Args[2:])
		if *tier == "" {
			*tier = os.Getenv("VERIF_TIER")
		}
		if *tier == "" {
			*tier = "quick"
		}
		seed, _ := strconv.ParseInt(os.Getenv("VERIF_SEED"), 10, 64)
		opt := Options{Prop: *prop, Tier: *tier, Repo: *repo, VerifDir: *verif, Seed: seed, Verbose: *verbose, Only: *only, WriteLed: os.Args[1] == "ledger"}
		os.Exit(RunCheck(opt))
	default:
		fmt.Fprintln(os.Stderr, "unknown command", os.Args[1])
		os.Exit(2)
	}
}
