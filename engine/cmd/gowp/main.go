package main

import (
	"fmt"
	"golang.org/x/tools/go/packages"
	"golang.org/x/tools/go/ssa"
	"golang.org/x/tools/go/ssa/ssautil"
)

func main() {
	_ = packages.Load
	_ = ssa.NaiveForm
	_ = ssautil.AllPackages
	fmt.Println("ok")
}
