package main

import (
	"fmt"
	"go/token"
	"os"
	"go/types"
	"sort"
	"strings"

	"golang.org/x/tools/go/ssa"
)

// Static (non-SMT) obligations: call-graph, ownership and frame checks computed on SSA.

func (P *Program) staticChecks(prop string) []*Obligation {
	var out []*Obligation
	out = append(out, P.typeInvImmutable(prop)...)
	out = append(out, P.funcTypeFrames(prop)...)
	out = append(out, P.chanClosureFrames(prop)...)
	out = append(out, P.publishedChecks(prop)...)
	out = append(out, P.spawnCaptureChecks(prop)...)
	return out
}

func staticOb(name, pos, descr string, ok bool, why string) *Obligation {
	ob := &Obligation{Name: name, Fn: "static", Kind: "static", Pos: pos, Descr: descr, Goal: True}
	if !ok {
		ob.Goal = False
		ob.Descr = descr + " — " + why
	}
	return ob
}

func (P *Program) allocatesType(fn *ssa.Function, ti *TypeInv) bool {
	for _, b := range fn.Blocks {
		for _, in := range b.Instrs {
			if a, ok := in.(*ssa.Alloc); ok {
				if n, ok := types.Unalias(derefType(a.Type())).(*types.Named); ok && n.Obj().Pkg() != nil &&
					n.Obj().Pkg().Path() == ti.Pkg && n.Obj().Name() == ti.Type {
					return true
				}
			}
		}
	}
	return false
}

// exprFields lists the dotted field paths selected on `self` in a type invariant
// (self.tip.frames -> "tip.frames"; indexing is transparent).
func exprFields(e *Expr, out map[string]bool) {
	if p, ok := selfPath(e); ok && p != "" {
		out[p] = true
		if e.Kind == "index" {
			exprFields(e.Args[1], out)
		}
		return // maximal path only
	}
	for _, a := range e.Args {
		exprFields(a, out)
	}
}

func selfPath(e *Expr) (string, bool) {
	switch e.Kind {
	case "ident":
		if e.Name == "self" {
			return "", true
		}
	case "sel":
		if p, ok := selfPath(e.Args[0]); ok {
			if p == "" {
				return e.Name, true
			}
			return p + "." + e.Name, true
		}
	case "index":
		return selfPath(e.Args[0])
	}
	return "", false
}

// storePath: dotted field path of a store address relative to the struct pointer it starts from.
func storePath(v ssa.Value) (base ssa.Value, path string) {
	switch a := v.(type) {
	case *ssa.FieldAddr:
		b, p := storePath(a.X)
		name := derefType(a.X.Type()).Underlying().(*types.Struct).Field(a.Field).Name()
		if p == "" {
			return b, name
		}
		return b, p + "." + name
	case *ssa.IndexAddr:
		if _, isArr := derefType(a.X.Type()).Underlying().(*types.Array); isArr {
			return storePath(a.X)
		}
	}
	return v, ""
}

func pathsConflict(a, b string) bool {
	return a == b || strings.HasPrefix(a, b+".") || strings.HasPrefix(b, a+".")
}

// typeInvImmutable: the fields a type invariant mentions are stored only into objects that
// the storing function itself allocated (i.e. while under construction).
func (P *Program) typeInvImmutable(prop string) []*Obligation {
	var out []*Obligation
	for _, ti := range P.Spec.TypeInvs {
		if !hasProp(ti.Props, prop) {
			continue
		}
		tn := P.lookupTypeName(ti.Pkg, ti.Type)
		if tn == nil {
			out = append(out, staticOb("static/typeinv-immutable:"+ti.Type, "?", "type of invariant exists", false, "type not found"))
			continue
		}
		if _, isStruct := tn.Type().Underlying().(*types.Struct); !isStruct {
			continue
		}
		fields := map[string]bool{}
		exprFields(ti.Clause.Expr, fields)
		ok := true
		why := ""
		// option functions run only while the object is under construction (before it is
		// published to another goroutine): they count as construction code
		builders := map[*ssa.Function]bool{}
		switch ti.Type {
		case "bState":
			builders = P.funcTypeTargets("BarOption")
		case "pState":
			builders = P.funcTypeTargets("ContainerOption")
		}
		for _, fn := range P.ModFuncs {
			if builders[fn] {
				continue
			}
			fresh := freshValues(fn)
			for _, b := range fn.Blocks {
				for _, in := range b.Instrs {
					s, isStore := in.(*ssa.Store)
					if !isStore {
						continue
					}
					k, fr, loc := P.addrKey(s.Addr, fresh)
					if loc || fr || k == "" {
						continue
					}
					base, path := storePath(s.Addr)
					if path == "" || !types.Identical(derefType(base.Type()), tn.Type()) {
						continue
					}
					if os.Getenv("GOWP_DEBUG") == "helper" {
						i, okp := paramIndexOf(fn, base)
						fmt.Fprintf(os.Stderr, "helper? %s base=%v (%T) param=%d,%v\n", relName(fn), base, base, i, okp)
					}
					if idx, isParam := paramIndexOf(fn, base); isParam && P.constructionHelper(fn, idx) {
						continue // an unexported helper that only ever receives objects its callers have just allocated
					}
					for f := range fields {
						if pathsConflict(f, path) {
							ok = false
							why = "field " + path + " written outside construction in " + relName(fn) + " at " + P.pos(s.Pos())
						}
					}
				}
			}
		}
		out = append(out, staticOb("static/typeinv-immutable:"+ti.Type, P.pos(tn.Pos()),
			"fields named by the invariant of "+ti.Type+" are written only during construction", ok, why))
	}
	return out
}

// propAssumptions: what the per-function proof leaves to the composition across goroutines.
func propAssumptions(prop string) []string {
	actor := "A-ACT: a closure sent on a bar's or the container's operateState/interceptIO channel is run exactly once, alone, by the goroutine that owns the state (the serve loops are verified to do that for one iteration; that no other goroutine touches the state is the frame conditions of every other function)"
	chans := "channel-role invariants are proved at every send and assumed at every receive; clauses marked `assume` on a channel role are assumed outright"
	live := "termination of blocking operations (send/receive/WaitGroup.Wait/select) is not proved: liveness across goroutines is outside the contract language (C01, C16 not applicable)"
	switch prop {
	case "C08":
		return []string{"float64 operations are correctly rounded reals with relative error 2^-53 (no NaN/Inf in the proved ranges); math.Round by integer witness"}
	case "C20":
		return []string{"float64 operations are correctly rounded reals with relative error 2^-53; strconv/fmt formatting under assumed contracts; time.Since(start) > 0"}
	case "C07":
		return []string{"display width dw (what a terminal shows) is an additive abstract measure; runewidth/stripansi under assumed contracts; runewidth.StringWidth equals dw only on plain text (no zero-width control sequences); user-supplied meta functions preserve dw, their results are not assumed plain"}
	case "C19":
		return []string{actor, "the wrapped reader/writer is arbitrary (havoc under its interface contract)"}
	case "C09", "C11":
		return []string{actor}
	case "C10":
		return []string{actor, chans, "data-race freedom is argued from per-function write frames, not from a model of the Go memory model"}
	}
	return []string{actor, chans, live}
}

// funcTypeFrames: behavioural subtyping on frames for named function types with a contract
// (ContainerOption, BarOption): every function of the module that is converted to the type,
// or returned as a value of the type, writes only what the contract's modifies clause allows.
func (P *Program) funcTypeFrames(prop string) []*Obligation {
	var out []*Obligation
	for name, ct := range P.FuncType {
		if !hasProp(ct.Props, prop) || !ct.HasMod || strings.Contains(name, ".") {
			continue
		}
		allowed := map[string]bool{}
		for _, k := range P.declaredModKeysIface(ct) {
			allowed[k] = true
		}
		if allowed[modAll] {
			continue
		}
		ok := true
		why := ""
		n := 0
		for _, fn := range P.ModFuncs {
			for _, b := range fn.Blocks {
				for _, in := range b.Instrs {
					var val ssa.Value
					var typ types.Type
					switch x := in.(type) {
					case *ssa.ChangeType:
						val, typ = x.X, x.Type()
					case *ssa.MakeClosure:
						val, typ = x, x.Type()
					case *ssa.Return:
						for i, r := range x.Results {
							if nt, isN := types.Unalias(fn.Signature.Results().At(i).Type()).(*types.Named); isN && nt.Obj().Name() == name {
								val, typ = r, nt
							}
						}
					}
					if val == nil || typ == nil {
						continue
					}
					nt, isN := types.Unalias(typ).(*types.Named)
					if !isN || nt.Obj().Name() != name || !inModule(nt.Obj().Pkg()) {
						continue
					}
					var target *ssa.Function
					switch v := val.(type) {
					case *ssa.MakeClosure:
						target, _ = v.Fn.(*ssa.Function)
					case *ssa.Function:
						target = v
					case *ssa.ChangeType:
						if mc, isMC := v.X.(*ssa.MakeClosure); isMC {
							target, _ = mc.Fn.(*ssa.Function)
						} else if f, isF := v.X.(*ssa.Function); isF {
							target = f
						}
					}
					if target == nil {
						continue
					}
					n++
					for k := range P.ModSet(target) {
						if !allowed[k] && !strings.HasPrefix(k, "#spawn") {
							ok = false
							why = relName(target) + " writes " + k
						}
					}
				}
			}
		}
		out = append(out, staticOb("static/functype-frame:"+name, "?", fmt.Sprintf("every module function used as a %s (%d found) writes only what its contract allows", name, n), ok, why))
	}
	return out
}

// chanClosureFrames: every closure of the module that is sent on a channel whose receiver
// applies it under a functype contract (Bar.operateState -> (*Bar).serve.op,
// Progress.operateState -> (*Progress).serve.op) writes only what that contract allows.
func (P *Program) chanClosureFrames(prop string) []*Obligation {
	links := map[string]string{
		"Bar.operateState":      "(*Bar).serve.op",
		"Progress.operateState": "(*Progress).serve.op",
		"Progress.interceptIO":  "(*Progress).serve.fn",
	}
	var out []*Obligation
	var roles []string
	for r := range links {
		roles = append(roles, r)
	}
	sort.Strings(roles)
	for _, role := range roles {
		ct := P.FuncType[links[role]]
		if ct == nil || !hasProp(ct.Props, prop) || !ct.HasMod {
			continue
		}
		allowed := map[string]bool{}
		for _, k := range P.declaredModKeysIface(ct) {
			allowed[k] = true
		}
		if allowed[modAll] {
			continue
		}
		ok := true
		why := ""
		n := 0
		check := func(fn *ssa.Function, ch, v ssa.Value) {
			if chanRole(ch) != role {
				return
			}
			var target *ssa.Function
			switch c := v.(type) {
			case *ssa.MakeClosure:
				target, _ = c.Fn.(*ssa.Function)
			case *ssa.Function:
				target = c
			case *ssa.UnOp:
				// a local variable holding one closure (fn := func...; ch <- fn)
				if cell, isA := c.X.(*ssa.Alloc); isA {
					if refs := cell.Referrers(); refs != nil {
						for _, r := range *refs {
							if st, isS := r.(*ssa.Store); isS && st.Addr == ssa.Value(cell) {
								if mc, isMC := st.Val.(*ssa.MakeClosure); isMC {
									target, _ = mc.Fn.(*ssa.Function)
								}
							}
						}
					}
				}
			}
			if target == nil {
				ok = false
				why = "a value of unknown origin is sent on " + role + " in " + relName(fn)
				return
			}
			n++
			for k := range P.ModSet(target) {
				base := k
				if i := strings.Index(k, ":"); i > 0 {
					base = k[:i]
				}
				if !allowed[k] && !allowed[base] && !(strings.HasPrefix(k, "#spawn$") && allowed[ghSpawn]) && !(strings.HasPrefix(k, ghLast) && allowed[ghSent]) && !(strings.HasPrefix(k, "#lrecv") && allowed[ghRecvd]) {
					ok = false
					why = relName(target) + " (sent on " + role + ") writes " + k
				}
			}
		}
		for _, fn := range P.ModFuncs {
			for _, b := range fn.Blocks {
				for _, in := range b.Instrs {
					switch x := in.(type) {
					case *ssa.Send:
						check(fn, x.Chan, x.X)
					case *ssa.Select:
						for _, sc := range x.States {
							if sc.Dir == types.SendOnly {
								check(fn, sc.Chan, sc.Send)
							}
						}
					}
				}
			}
		}
		out = append(out, staticOb("static/chan-frame:"+role, "?", fmt.Sprintf("every closure sent on %s (%d send sites) writes only what %s allows", role, n, links[role]), ok, why))
	}
	return out
}

// funcTypeTargets: the functions of the module that are used as values of a named func type.
func (P *Program) funcTypeTargets(name string) map[*ssa.Function]bool {
	out := map[*ssa.Function]bool{}
	for _, fn := range P.ModFuncs {
		for _, b := range fn.Blocks {
			for _, in := range b.Instrs {
				var val ssa.Value
				var typ types.Type
				switch x := in.(type) {
				case *ssa.ChangeType:
					val, typ = x.X, x.Type()
				case *ssa.MakeClosure:
					val, typ = x, x.Type()
				case *ssa.Return:
					for i, r := range x.Results {
						if nt, isN := types.Unalias(fn.Signature.Results().At(i).Type()).(*types.Named); isN && nt.Obj().Name() == name {
							val, typ = r, nt
						}
					}
				}
				if val == nil || typ == nil {
					continue
				}
				nt, isN := types.Unalias(typ).(*types.Named)
				if !isN || nt.Obj().Name() != name || !inModule(nt.Obj().Pkg()) {
					continue
				}
				switch v := val.(type) {
				case *ssa.MakeClosure:
					if f, ok := v.Fn.(*ssa.Function); ok {
						out[f] = true
					}
				case *ssa.Function:
					out[v] = true
				case *ssa.ChangeType:
					if mc, isMC := v.X.(*ssa.MakeClosure); isMC {
						if f, ok := mc.Fn.(*ssa.Function); ok {
							out[f] = true
						}
					} else if f, isF := v.X.(*ssa.Function); isF {
						out[f] = true
					}
				}
			}
		}
	}
	return out
}


// spawnCaptureChecks: a variable that a spawned closure captures by reference must not be
// written by the spawner after the go statement - the goroutine could see the later value (and
// the accesses race). The classic instance is a range variable shared by all iterations
// (language versions before 1.22) captured without the `d := d` copy. Checked for every
// function of the module in C02 and C10 runs, and for the functions whose contract lists the
// property otherwise.
func (P *Program) spawnCaptureChecks(prop string) []*Obligation {
	var out []*Obligation
	var fns []*ssa.Function
	for _, fn := range P.ModFuncs {
		fns = append(fns, fn)
	}
	sort.Slice(fns, func(i, j int) bool { return fns[i].String() < fns[j].String() })
	for _, fn := range fns {
		if prop != "C02" && prop != "C10" {
			ct := P.Contracts[fn]
			if ct == nil || !hasProp(ct.Props, prop) {
				continue
			}
		}
		for _, b := range fn.Blocks {
			for gi, in := range b.Instrs {
				g, ok := in.(*ssa.Go)
				if !ok {
					continue
				}
				mc, ok := g.Call.Value.(*ssa.MakeClosure)
				if !ok {
					continue
				}
				okAll, why := true, ""
				for k, bnd := range mc.Bindings {
					al, isAlloc := bnd.(*ssa.Alloc)
					if !isAlloc || al.Referrers() == nil {
						continue
					}
					for _, ref := range *al.Referrers() {
						st, isStore := ref.(*ssa.Store)
						if !isStore || st.Addr != ssa.Value(al) {
							continue
						}
						if storeAfter(b, gi, st, al) {
							okAll = false
							why += fmt.Sprintf("%s (captured as %s by %s) is assigned at %s after the go statement; ", al.Comment, mc.Fn.(*ssa.Function).FreeVars[k].Name(), mc.Fn.Name(), P.pos(st.Pos()))
						}
					}
				}
				out = append(out, staticOb(fmt.Sprintf("static/spawn-capture:%s#%d", relName(fn), len(out)+1), P.pos(g.Pos()),
					"no variable captured by the goroutine started here is assigned by the spawner afterwards", okAll, why))
			}
		}
	}
	// stable names: number per function
	perFn := map[string]int{}
	for _, ob := range out {
		base := ob.Name[:strings.LastIndex(ob.Name, "#")]
		perFn[base]++
		ob.Name = fmt.Sprintf("%s#%d", base, perFn[base])
	}
	return out
}

// storeAfter: can the store execute after instruction gi of block gb without the variable's
// Alloc instruction executing in between (a new Alloc execution makes a new variable)?
func storeAfter(gb *ssa.BasicBlock, gi int, st *ssa.Store, al *ssa.Alloc) bool {
	// same block, later instruction
	allocBlock := al.Block()
	for i := gi + 1; i < len(gb.Instrs); i++ {
		if gb.Instrs[i] == ssa.Instruction(al) {
			return false
		}
		if gb.Instrs[i] == ssa.Instruction(st) {
			return true
		}
	}
	seen := map[*ssa.BasicBlock]bool{}
	var stack []*ssa.BasicBlock
	stack = append(stack, gb.Succs...)
	for len(stack) > 0 {
		b := stack[len(stack)-1]
		stack = stack[:len(stack)-1]
		if seen[b] {
			continue
		}
		seen[b] = true
		blocked := false
		for _, in := range b.Instrs {
			if in == ssa.Instruction(al) {
				blocked = true
				break
			}
			if in == ssa.Instruction(st) {
				return true
			}
		}
		_ = allocBlock
		if !blocked {
			stack = append(stack, b.Succs...)
		}
	}
	return false
}

// paramIndexOf: v is parameter idx of fn, or a load of the cell that parameter was spilled to
// (naive form) and that nothing else is stored into.
func paramIndexOf(fn *ssa.Function, v ssa.Value) (int, bool) {
	find := func(p ssa.Value) (int, bool) {
		for i, q := range fn.Params {
			if q == p {
				return i, true
			}
		}
		return 0, false
	}
	if i, ok := find(v); ok {
		return i, true
	}
	u, ok := v.(*ssa.UnOp)
	if !ok || u.Op != token.MUL {
		return 0, false
	}
	cell, ok := u.X.(*ssa.Alloc)
	if !ok {
		return 0, false
	}
	idx, n := -1, 0
	for _, b := range fn.Blocks {
		for _, in := range b.Instrs {
			if st, ok := in.(*ssa.Store); ok && st.Addr == cell {
				n++
				if i, ok := find(st.Val); ok {
					idx = i
				}
			}
		}
	}
	if n == 1 && idx >= 0 {
		return idx, true
	}
	return 0, false
}

// constructionHelper: fn is an unexported function that is only ever called statically, at least
// once, and every call passes as argument idx an object the caller itself has just allocated; it
// is never used as a value. Its stores through that parameter are construction code.
func (P *Program) constructionHelper(fn *ssa.Function, idx int) bool {
	dbg := os.Getenv("GOWP_DEBUG") == "helper"
	if fn.Parent() != nil || fn.Object() == nil || fn.Object().Exported() {
		if dbg {
			fmt.Fprintf(os.Stderr, "helper %s: not a plain unexported function\n", relName(fn))
		}
		return false
	}
	calls := 0
	for _, caller := range P.ModFuncs {
		fresh := freshValues(caller)
		for _, b := range caller.Blocks {
			for _, in := range b.Instrs {
				if ci, ok := in.(ssa.CallInstruction); ok && ci.Common().StaticCallee() == fn {
					if _, isGo := in.(*ssa.Go); isGo {
						return false
					}
					args := ci.Common().Args
					if idx >= len(args) || !fresh[args[idx]] {
						if os.Getenv("GOWP_DEBUG") == "helper" {
							fmt.Fprintf(os.Stderr, "helper %s: arg %d of call in %s is not fresh (%v)\n", relName(fn), idx, relName(caller), args)
						}
						return false
					}
					calls++
					continue
				}
				if _, isDbg := in.(*ssa.DebugRef); isDbg {
					continue
				}
				for _, op := range in.Operands(nil) {
					if op != nil && *op == ssa.Value(fn) {
						if ci, ok := in.(ssa.CallInstruction); !ok || ci.Common().Value != ssa.Value(fn) {
							if dbg {
								fmt.Fprintf(os.Stderr, "helper %s: used as a value in %s: %v\n", relName(fn), relName(caller), in)
							}
							return false // used as a value
						}
					}
				}
			}
		}
	}
	return calls > 0
}
