package main

import (
	"go/types"

	"golang.org/x/tools/go/ssa"
)

// Static (non-SMT) obligations: call-graph, ownership and frame checks computed on SSA.

func (P *Program) staticChecks(prop string) []*Obligation {
	var out []*Obligation
	out = append(out, P.typeInvImmutable(prop)...)
	return out
}

func staticOb(name, pos, descr string, ok bool, why string) *Obligation {
	ob := &Obligation{Name: name, Fn: "static", Kind: "static", Pos: pos, Descr: descr, Goal: True}
	if !ok {
		ob.Goal = False
		ob.Descr = descr + " — " + why
	}
	return ob
}

func (P *Program) allocatesType(fn *ssa.Function, ti *TypeInv) bool {
	for _, b := range fn.Blocks {
		for _, in := range b.Instrs {
			if a, ok := in.(*ssa.Alloc); ok {
				if n, ok := types.Unalias(derefType(a.Type())).(*types.Named); ok && n.Obj().Pkg() != nil &&
					n.Obj().Pkg().Path() == ti.Pkg && n.Obj().Name() == ti.Type {
					return true
				}
			}
		}
	}
	return false
}

// exprFields lists the field names selected on `self` in a type invariant.
func exprFields(e *Expr, out map[string]bool) {
	if e.Kind == "sel" && e.Args[0].Kind == "ident" && e.Args[0].Name == "self" {
		out[e.Name] = true
	}
	for _, a := range e.Args {
		exprFields(a, out)
	}
}

// typeInvImmutable: the fields a type invariant mentions are stored only into objects that
// the storing function itself allocated (i.e. while under construction).
func (P *Program) typeInvImmutable(prop string) []*Obligation {
	var out []*Obligation
	for _, ti := range P.Spec.TypeInvs {
		if !hasProp(ti.Props, prop) {
			continue
		}
		tn := P.lookupTypeName(ti.Pkg, ti.Type)
		if tn == nil {
			out = append(out, staticOb("static/typeinv-immutable:"+ti.Type, "?", "type of invariant exists", false, "type not found"))
			continue
		}
		if _, isStruct := tn.Type().Underlying().(*types.Struct); !isStruct {
			continue
		}
		fields := map[string]bool{}
		exprFields(ti.Clause.Expr, fields)
		keys := map[string]string{}
		st := tn.Type().Underlying().(*types.Struct)
		for i := 0; i < st.NumFields(); i++ {
			if fields[st.Field(i).Name()] {
				keys[fieldKey(tn.Type(), i)] = st.Field(i).Name()
			}
		}
		ok := true
		why := ""
		for _, fn := range P.ModFuncs {
			fresh := freshValues(fn)
			for _, b := range fn.Blocks {
				for _, in := range b.Instrs {
					s, isStore := in.(*ssa.Store)
					if !isStore {
						continue
					}
					k, fr, loc := P.addrKey(s.Addr, fresh)
					if loc || fr || k == "" {
						continue
					}
					if f, hit := keys[k]; hit {
						ok = false
						why = "field " + f + " written outside construction in " + relName(fn) + " at " + P.pos(s.Pos())
					}
				}
			}
		}
		out = append(out, staticOb("static/typeinv-immutable:"+ti.Type, P.pos(tn.Pos()),
			"fields named by the invariant of "+ti.Type+" are written only during construction", ok, why))
	}
	return out
}

func propAssumptions(prop string) []string {
	return nil
}
