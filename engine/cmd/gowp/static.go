package main

// Static (non-SMT) obligations: call-graph, ownership and frame checks computed on SSA.

func (P *Program) staticChecks(prop string) []*Obligation {
	return nil
}

func propAssumptions(prop string) []string {
	return nil
}
