package main

// Replay harnesses: model -> in-package Go test with a property-level oracle.

import (
	"fmt"
	"math/big"
	"strings"
)

func init() {
	replayHarnesses = append(replayHarnesses,
		replayHarness{match: prefixMatch("Percentage/", "PercentageRound/"), pkgDir: "internal", render: renderPercentage, class: classPercentage},
		replayHarness{match: prefixMatch("(bState).completed/"), pkgDir: ".", render: renderCompleted, class: classCompleted},
		replayHarness{match: barClosureMatch, pkgDir: ".", render: renderBarClosure, class: classBarClosure},
	)
}

func prefixMatch(ps ...string) func(string) bool {
	return func(n string) bool {
		for _, p := range ps {
			if strings.HasPrefix(n, p) {
				return true
			}
		}
		return false
	}
}

// --- internal.Percentage / PercentageRound ------------------------------------------------

func renderPercentage(P *Program, ob *Obligation) (string, bool) {
	t, ok1 := modelInt(ob, "in_total")
	c, ok2 := modelInt(ob, "in_current")
	w, ok3 := modelInt(ob, "in_width")
	if !ok1 || !ok2 || !ok3 {
		return "", false
	}
	round := strings.HasPrefix(ob.Name, "PercentageRound/")
	call := fmt.Sprintf("Percentage(uint(%s), uint(%s), uint(%s))", t, c, w)
	if round {
		call = fmt.Sprintf("PercentageRound(int64(%s), int64(%s), uint(%s))", t, c, w)
	}
	src := fmt.Sprintf(`package internal

import (
	"math/big"
	"testing"
)

// oracle (C08): width*current/total, exact in rationals; zero when current is zero or total
// is not positive; full width when current >= total > 0; otherwise nearest (for the rounding
// variant) or within width*2^-50 (plain variant).
func TestGowpReplay(t *testing.T) {
	total, current, width := big.NewInt(0), big.NewInt(0), big.NewInt(0)
	total.SetString("%s", 10)
	current.SetString("%s", 10)
	width.SetString("%s", 10)
	got := %s
	gotR := new(big.Rat)
	gotR.SetFloat64(got)
	want := new(big.Rat)
	switch {
	case total.Sign() <= 0 || current.Sign() <= 0:
		want.SetInt64(0)
	case current.Cmp(total) >= 0:
		want.SetInt(width)
	default:
		want.SetFrac(new(big.Int).Mul(width, current), total)
	}
	diff := new(big.Rat).Sub(gotR, want)
	diff.Abs(diff)
	tol := new(big.Rat).SetFrac(width, new(big.Int).Lsh(big.NewInt(1), 50))
	if %v {
		tol.Add(tol, big.NewRat(1, 2))
	}
	t.Logf("total=%%s current=%%s width=%%s got=%%v want=%%s", total, current, width, got, want.FloatString(6))
	if diff.Cmp(tol) > 0 {
		t.Fatalf("REPRODUCED: result %%v differs from the exact value %%s by more than the allowed %%s", got, want.FloatString(6), tol.FloatString(6))
	}
}
`, t, c, w, call, round)
	return src, true
}

func classPercentage(P *Program, ob *Obligation) string {
	if strings.Contains(ob.Name, "/ovf#") {
		return "product-overflow"
	}
	return ""
}

// --- (bState).completed ---------------------------------------------------------------------

func renderCompleted(P *Program, ob *Obligation) (string, bool) {
	v, ok := ob.Result.Model["in_s"]
	if !ok {
		return "", false
	}
	f := structModel(v, "S_bState")
	if f == nil {
		return "", false
	}
	src := fmt.Sprintf(`package mpb

import "testing"

// oracle (C11, C09): never completed and aborted at once; completed implies triggering is on
// and current == total; a non-aborted bar with triggering on and current == total is completed.
func TestGowpReplay(t *testing.T) {
	s := bState{total: %s, current: %s, triggerComplete: %s, aborted: %s}
	got := s.completed()
	t.Logf("state %%+v completed()=%%v", struct{ total, current int64; trig, aborted bool }{s.total, s.current, s.triggerComplete, s.aborted}, got)
	if got && s.aborted {
		t.Fatalf("REPRODUCED: bar reported completed and aborted at once")
	}
	if got && !(s.triggerComplete && s.current == s.total) {
		t.Fatalf("REPRODUCED: completed without trigger or with current != total")
	}
	if !got && !s.aborted && s.triggerComplete && s.current == s.total {
		t.Fatalf("REPRODUCED: not completed although current reached total with triggering on")
	}
}
`, f["total"], f["current"], f["triggerComplete"], f["aborted"])
	return src, true
}

func classCompleted(P *Program, ob *Obligation) string {
	v, ok := ob.Result.Model["in_s"]
	if !ok {
		return ""
	}
	f := structModel(v, "S_bState")
	if f == nil {
		return ""
	}
	if f["aborted"] == "true" && f["triggerComplete"] == "true" && f["current"] == f["total"] {
		return "aborted-and-at-total"
	}
	return "other"
}

// --- closures of bar.go: run the real closure on a crafted state ----------------------------

var barClosureCalls = map[string]string{
	"(*Bar).IncrInt64$1":             "b.IncrInt64(%[n]s)",
	"(*Bar).SetCurrent$1":            "b.SetCurrent(%[current]s)",
	"(*Bar).SetTotal$1":              "b.SetTotal(%[total]s, %[complete]s)",
	"(*Bar).EnableTriggerComplete$1": "b.EnableTriggerComplete()",
	"(*Bar).SetRefill$1":             "b.SetRefill(%[amount]s)",
	"(*Bar).Abort$1":                 "b.Abort(%[drop]s)",
	"(*Bar).EwmaIncrInt64$1":         "b.EwmaIncrInt64(%[n]s, 0)",
	"(*Bar).EwmaSetCurrent$1":        "b.EwmaSetCurrent(%[current]s, 0)",
}

func barClosureMatch(n string) bool {
	for k := range barClosureCalls {
		if strings.HasPrefix(n, k+"/") {
			return true
		}
	}
	return false
}

func barClosureState(ob *Obligation) (map[string]string, bool) {
	ref, ok := modelInt(ob, "in_s")
	if !ok {
		return nil, false
	}
	out := map[string]string{}
	for _, f := range []string{"total", "current", "refill", "triggerComplete", "aborted", "rmOnComplete"} {
		v, ok := heapField(ob, "F$bState$"+f, ref)
		if !ok {
			// a field the VC never mentions is unconstrained
			switch f {
			case "triggerComplete", "aborted", "rmOnComplete":
				v = "false"
			default:
				v = "0"
			}
		}
		out[f] = v
	}
	return out, true
}

func renderBarClosure(P *Program, ob *Obligation) (string, bool) {
	var key, call string
	for k, c := range barClosureCalls {
		if strings.HasPrefix(ob.Name, k+"/") {
			key, call = k, c
		}
	}
	stf, ok := barClosureState(ob)
	if !ok {
		return "", false
	}
	// arguments are free variables of the closure
	for _, a := range []string{"n", "current", "total", "complete", "amount", "drop"} {
		ph := "%[" + a + "]s"
		if strings.Contains(call, ph) {
			v, ok := ob.Result.Model["fv_"+a]
			if !ok {
				v = "0"
				if a == "complete" || a == "drop" {
					v = "false"
				}
			}
			call = strings.ReplaceAll(call, ph, v)
		}
	}
	_ = key
	src := fmt.Sprintf(`package mpb

import (
	"context"
	"testing"
	"time"
)

// The public method is called on a Bar whose goroutine is not running; the closure it sends
// is received here and applied to the state taken from the solver's model, so the code that
// runs is the real closure. Oracle: the C09 rules and the C11 stability clauses.
func TestGowpReplay(t *testing.T) {
	ctx, cancel := context.WithCancel(context.Background())
	defer cancel()
	b := &Bar{operateState: make(chan func(*bState)), bsOk: make(chan struct{}), ctx: ctx, cancel: func() {}}
	s := &bState{total: %s, current: %s, refill: %s, triggerComplete: %s, aborted: %s, rmOnComplete: %s}
	before := *s
	wasCompleted := s.completed()
	go func() { %s }()
	select {
	case op := <-b.operateState:
		op(s)
	case <-time.After(5 * time.Second):
		t.Skip("the method did not send a closure (ignored call)")
	}
	t.Logf("before: total=%%d current=%%d trig=%%v aborted=%%v completed=%%v", before.total, before.current, before.triggerComplete, before.aborted, wasCompleted)
	t.Logf("after:  total=%%d current=%%d trig=%%v aborted=%%v completed=%%v", s.total, s.current, s.triggerComplete, s.aborted, s.completed())
	if s.aborted && s.completed() {
		t.Fatalf("REPRODUCED: bar is completed and aborted at once")
	}
	if before.aborted && (!s.aborted || s.completed()) {
		t.Fatalf("REPRODUCED: an aborted bar stopped being aborted or became completed")
	}
	nonDecreasing := s.current >= before.current || %v
	if wasCompleted && nonDecreasing && !s.completed() {
		t.Fatalf("REPRODUCED: a completed bar stopped being completed after a non-decreasing update")
	}
	if s.triggerComplete && before.triggerComplete && s.current > s.total {
		t.Fatalf("REPRODUCED: current exceeds total although completion triggering is enabled")
	}
	if s.refill > s.current && s.refill != before.refill {
		t.Fatalf("REPRODUCED: refill mark set above current")
	}
}
`, stf["total"], stf["current"], stf["refill"], stf["triggerComplete"], stf["aborted"], stf["rmOnComplete"], call, isNonDecreasingCall(ob))
	return src, true
}

// the increment argument of the model is non-negative (the update is non-decreasing by intent
// even when the sum wraps)
func isNonDecreasingCall(ob *Obligation) bool {
	if v, ok := ob.Result.Model["fv_n"]; ok {
		return !strings.HasPrefix(v, "-")
	}
	return false
}

func classBarClosure(P *Program, ob *Obligation) string {
	stf, ok := barClosureState(ob)
	if !ok {
		return ""
	}
	if n, ok := ob.Result.Model["fv_n"]; ok && strings.HasSuffix(ob.Name, "/ensures:S1") {
		// wrap-around: current + n leaves int64
		cur, ok1 := new(big.Int).SetString(stf["current"], 10)
		nv, ok2 := new(big.Int).SetString(n, 10)
		if ok1 && ok2 {
			sum := new(big.Int).Add(cur, nv)
			if sum.Cmp(pow2(63)) >= 0 || sum.Cmp(negPow(63)) < 0 {
				return "wrap"
			}
		}
	}
	return "other"
}

// --- (*bFiller).Fill: build a real filler whose components have the model's widths ---------

func init() {
	replayHarnesses = append(replayHarnesses,
		replayHarness{match: prefixMatch("(*bFiller).Fill/"), pkgDir: ".", render: renderBarFill, class: classBarFill})
}

type fillModel struct {
	widths  [6]int // lbound rbound refiller filler tip(unused) padding
	known   [6]bool
	tipW    []int
	stat    map[string]string
	gotStat bool
	tipOnComplete string
	tipWidth      int
}

func readFillModel(ob *Obligation) (*fillModel, bool) {
	fm := &fillModel{}
	ref, ok := modelInt(ob, "in_s")
	if !ok {
		return nil, false
	}
	if v, ok := ob.Result.Model["in_stat"]; ok {
		fm.stat = structModel(v, "S_decor_Statistics")
		fm.gotStat = fm.stat != nil
	}
	if comps, ok := heapField(ob, "F$bFiller$components", ref); ok {
		for i := 0; i < 6; i++ {
			if cv, ok := arrayAt(comps, fmt.Sprint(i)); ok {
				if f := structModel(cv, "S_component"); f != nil {
					if w, err := strconvAtoi(f["width"]); err == nil {
						fm.widths[i] = w
						fm.known[i] = true
					}
				}
			}
		}
	}
	// tip: onComplete flag and the width of the frame the call would pick
	fm.tipOnComplete = "false"
	fm.tipWidth = -1
	if tv, ok := heapField(ob, "F$bFiller$tip", ref); ok {
		n := parseSxFull(tv)
		if len(n.list) == 4 {
			if n.list[1].atom == "true" {
				fm.tipOnComplete = "true"
			}
			cnt, ok1 := n.list[2].intVal()
			sl := n.list[3]
			if ok1 && len(sl.list) == 5 {
				base, okb := sl.list[1].intVal()
				off, oko := sl.list[2].intVal()
				ln, okl := sl.list[3].intVal()
				if okb && oko && okl {
					var c, o, l int
					fmt.Sscanf(cnt, "%d", &c)
					fmt.Sscanf(off, "%d", &o)
					fmt.Sscanf(ln, "%d", &l)
					if l > 0 {
						idx := o + c%l
						if ev, ok := ob.Result.Model["E$S_component@0"]; ok {
							if inner, ok := arrayAt(ev, base); ok {
								if cv, ok := arrayAt(inner, fmt.Sprint(idx)); ok {
									if f := structModel(cv, "S_component"); f != nil {
										if w, err := strconvAtoi(f["width"]); err == nil {
											fm.tipWidth = w
										}
									}
								}
							}
						}
					}
				}
			}
		}
	}
	return fm, fm.gotStat
}

func strconvAtoi(s string) (int, error) {
	var n int
	_, err := fmt.Sscanf(s, "%d", &n)
	return n, err
}

func widthString(w int, ch string) string {
	if w <= 0 {
		return ""
	}
	if w > 64 {
		w = 64
	}
	return strings.Repeat(ch, w)
}

func renderBarFill(P *Program, ob *Obligation) (string, bool) {
	fm, ok := readFillModel(ob)
	if !ok {
		return "", false
	}
	get := func(i int, def int) int {
		if fm.known[i] {
			return fm.widths[i]
		}
		return def
	}
	// the tip frame: when the model says nothing, use a tip wider than the body (the class
	// the `exact` clause guards against) only if the obligation is about width
	tipW := 1
	if fm.tipWidth >= 0 {
		tipW = fm.tipWidth
	} else if strings.Contains(ob.Name, "ensures:exact") || strings.Contains(ob.Name, "ensures:fits") {
		tipW = 2
	}
	tipOnComplete := ""
	if fm.tipOnComplete == "true" {
		tipOnComplete = ".TipOnComplete()"
	}
	val := func(k, def string) string {
		if v, ok := fm.stat[k]; ok && v != "" {
			return v
		}
		return def
	}
	src := fmt.Sprintf(`package mpb

import (
	"bytes"
	"testing"
	"time"

	"github.com/mattn/go-runewidth"
	"github.com/vbauerster/mpb/v8/decor"
)

// oracle (C07): Fill terminates; the body occupies exactly the allotted width when it is
// drawn and never more than the available width.
func TestGowpReplay(t *testing.T) {
	style := BarStyle().Lbound(%q).Rbound(%q).Refiller(%q).Filler(%q).Tip(%q).Padding(%q)%s
	stat := decor.Statistics{AvailableWidth: %s, RequestedWidth: %s, Total: %s, Current: %s, Refill: %s, Completed: %s}
	if stat.AvailableWidth > 4096 {
		t.Skip("model width too large to replay")
	}
	filler := style.Build()
	var buf bytes.Buffer
	done := make(chan error, 1)
	go func() { done <- filler.Fill(&buf, stat) }()
	select {
	case err := <-done:
		if err != nil {
			t.Skipf("Fill returned an error: %%v", err)
		}
	case <-time.After(5 * time.Second):
		t.Fatalf("REPRODUCED: Fill did not return within 5s (style %%+v, stat %%+v)", style, stat)
	}
	got := runewidth.StringWidth(buf.String())
	t.Logf("stat %%+v output %%q width %%d", stat, buf.String(), got)
	if got > stat.AvailableWidth {
		t.Fatalf("REPRODUCED: body is %%d columns wide, available %%d", got, stat.AvailableWidth)
	}
	allot := stat.RequestedWidth
	if allot < 1 || allot > stat.AvailableWidth {
		allot = stat.AvailableWidth
	}
	if got != 0 && got != allot {
		t.Fatalf("REPRODUCED: body is %%d columns wide, allotted %%d", got, allot)
	}
}
`, widthString(get(0, 1), "["), widthString(get(1, 1), "]"), widthString(get(2, 1), "+"), widthString(get(3, 1), "="),
		widthString(tipW, ">"), widthString(get(5, 1), "-"), tipOnComplete,
		val("AvailableWidth", "3"), val("RequestedWidth", "0"), val("Total", "2"), val("Current", "1"), val("Refill", "0"), val("Completed", "false"))
	return src, true
}

func classBarFill(P *Program, ob *Obligation) string {
	fm, ok := readFillModel(ob)
	if !ok {
		return ""
	}
	switch {
	case strings.Contains(ob.Name, "variant#1") && fm.known[3] && fm.widths[3] == 0:
		return "w=0:filler"
	case strings.Contains(ob.Name, "variant#2") && fm.known[2] && fm.widths[2] == 0:
		return "w=0:refiller"
	case strings.Contains(ob.Name, "variant#3") && fm.known[5] && fm.widths[5] == 0:
		return "w=0:padding"
	case (strings.Contains(ob.Name, "ensures:exact") || strings.Contains(ob.Name, "ensures:fits")) && fm.tipWidth > 0:
		return "tip-wider-than-body"
	}
	return "other"
}

// --- (*Progress).Add$1: successors queued behind a bar (C17) --------------------------------

func init() {
	replayHarnesses = append(replayHarnesses,
		replayHarness{match: prefixMatch("(*Progress).Add$1/ensures:live", "(*Progress).Add$1/ensures:nooverwrite"), pkgDir: ".", render: renderQueueAfter, class: classQueueAfter})
}

func classQueueAfter(P *Program, ob *Obligation) string {
	if strings.HasSuffix(ob.Name, "ensures:live") {
		return "predecessor-retired"
	}
	return "slot-occupied"
}

// The counterexample class decides the history: the predecessor's slot was already consulted
// (it finished and was flushed before the successor was created), or the slot already holds
// another successor. Oracle: every bar is eventually displayed and Wait returns.
func renderQueueAfter(P *Program, ob *Obligation) (string, bool) {
	scenario := "retired"
	if strings.HasSuffix(ob.Name, "ensures:nooverwrite") {
		scenario = "occupied"
	}
	src := fmt.Sprintf(`package mpb

import (
	"io"
	"testing"
	"time"
)

func TestGowpReplay(t *testing.T) {
	scenario := %q
	p := New(WithOutput(io.Discard), WithAutoRefresh(), WithRefreshRate(10*time.Millisecond))
	a := p.AddBar(1)
	var successors []*Bar
	if scenario == "occupied" {
		// two bars queued behind the same predecessor
		successors = append(successors, p.AddBar(1, BarQueueAfter(a)), p.AddBar(1, BarQueueAfter(a)))
		a.Increment()
	} else {
		// the predecessor has finished and its last frame has been flushed
		a.Increment()
		a.Wait()
		time.Sleep(100 * time.Millisecond)
		successors = append(successors, p.AddBar(1, BarQueueAfter(a)))
	}
	time.Sleep(100 * time.Millisecond)
	for _, s := range successors {
		s.Increment()
	}
	done := make(chan struct{})
	go func() { p.Wait(); close(done) }()
	select {
	case <-done:
		t.Logf("Wait returned (%%s)", scenario)
	case <-time.After(5 * time.Second):
		t.Fatalf("REPRODUCED: Wait did not return within 5s: a bar queued after another never got its turn (%%s)", scenario)
	}
}
`, scenario)
	return src, true
}

// --- maxWidthDistributor: a width exchange left half-way on the error path (C15) ------------

func init() {
	replayHarnesses = append(replayHarnesses,
		replayHarness{match: prefixMatch("maxWidthDistributor/ensures:answered"), pkgDir: ".", render: renderHalfExchange,
			class: func(P *Program, ob *Obligation) string { return "dropped-after-collecting" }})
}

// History of the class: bar X has a synchronised decorator, bar Y a slow plain decorator
// followed by a synchronised one, bar Z (added last) has a filler that fails. Z's frame
// closes the drop channel while the column's distributor holds X's width and waits for Y's;
// it returns, X stays blocked in its width exchange. Oracle: Wait returns.
func renderHalfExchange(P *Program, ob *Obligation) (string, bool) {
	return `package mpb

import (
	"errors"
	"io"
	"testing"
	"time"

	"github.com/vbauerster/mpb/v8/decor"
)

func TestGowpReplay(t *testing.T) {
	reproduced := 0
	for attempt := 0; attempt < 5 && reproduced == 0; attempt++ {
		p := New(WithOutput(io.Discard), WithAutoRefresh(), WithRefreshRate(20*time.Millisecond))
		slow := decor.Any(func(decor.Statistics) string { time.Sleep(150 * time.Millisecond); return "slow" })
		p.AddBar(100, PrependDecorators(decor.Name("x", decor.WCSyncWidth)))
		p.AddBar(100, PrependDecorators(slow, decor.Name("yy", decor.WCSyncWidth)))
		p.Add(100, BarFillerFunc(func(io.Writer, decor.Statistics) error { return errors.New("filler failed") }))
		done := make(chan struct{})
		go func() { p.Wait(); close(done) }()
		select {
		case <-done:
		case <-time.After(3 * time.Second):
			reproduced++
		}
	}
	if reproduced > 0 {
		t.Fatalf("REPRODUCED: after a render error Wait did not return within 3s (a bar is left half-way through a width exchange)")
	}
	t.Logf("5 attempts, Wait returned every time")
}
`, true
}

// --- (*pState).render: a frame as tall as the terminal (C04) ---------------------------------

func init() {
	replayHarnesses = append(replayHarnesses,
		replayHarness{match: prefixMatch("(*pState).render/ensures:fits"), pkgDir: ".", render: renderPtyFits,
			class: func(P *Program, ob *Obligation) string { return "frame-fills-terminal" }})
}

// The container runs on the slave side of a pseudo terminal of H rows with H bars; the
// master's bytes are interpreted by a line-feed / cursor-up interpreter. Oracle: no line is
// ever scrolled off the screen.
func renderPtyFits(P *Program, ob *Obligation) (string, bool) {
	return `package mpb

import (
	"os"
	"strconv"
	"sync"
	"testing"
	"time"
	"unsafe"

	"golang.org/x/sys/unix"
)

func TestGowpReplay(t *testing.T) {
	const H = 6
	m, err := os.OpenFile("/dev/ptmx", os.O_RDWR|unix.O_NOCTTY, 0)
	if err != nil {
		t.Skipf("no pty: %v", err)
	}
	defer m.Close()
	var unlock int32
	if _, _, e := unix.Syscall(unix.SYS_IOCTL, m.Fd(), unix.TIOCSPTLCK, uintptr(unsafe.Pointer(&unlock))); e != 0 {
		t.Skipf("unlockpt: %v", e)
	}
	n, err := unix.IoctlGetInt(int(m.Fd()), unix.TIOCGPTN)
	if err != nil {
		t.Skipf("ptsname: %v", err)
	}
	s, err := os.OpenFile("/dev/pts/"+strconv.Itoa(n), os.O_RDWR|unix.O_NOCTTY, 0)
	if err != nil {
		t.Skipf("open slave: %v", err)
	}
	if err := unix.IoctlSetWinsize(int(m.Fd()), unix.TIOCSWINSZ, &unix.Winsize{Row: H, Col: 80}); err != nil {
		t.Skipf("winsize: %v", err)
	}
	var mu sync.Mutex
	var out []byte
	go func() {
		buf := make([]byte, 4096)
		for {
			n, err := m.Read(buf)
			mu.Lock()
			out = append(out, buf[:n]...)
			mu.Unlock()
			if err != nil {
				return
			}
		}
	}()
	p := New(WithOutput(s), WithRefreshRate(20*time.Millisecond))
	bars := make([]*Bar, H)
	for i := range bars {
		bars[i] = p.AddBar(100)
	}
	time.Sleep(200 * time.Millisecond)
	for _, b := range bars {
		b.IncrBy(100)
	}
	p.Wait()
	s.Close()
	time.Sleep(100 * time.Millisecond)
	mu.Lock()
	data := append([]byte{}, out...)
	mu.Unlock()
	row, scrolled := 0, 0
	for i := 0; i < len(data); i++ {
		switch c := data[i]; {
		case c == '\n':
			row++
			if row == H {
				scrolled++
				row = H - 1
			}
		case c == 0x1b && i+1 < len(data) && data[i+1] == '[':
			j := i + 2
			k := 0
			for j < len(data) && data[j] >= '0' && data[j] <= '9' {
				k = k*10 + int(data[j]-'0')
				j++
			}
			if j < len(data) && data[j] == 'A' {
				row -= k
				if row < 0 {
					row = 0
				}
			}
			i = j
		}
	}
	t.Logf("%d bytes, %d lines scrolled off a %d-row terminal showing %d bars", len(data), scrolled, H, H)
	if scrolled > 0 {
		t.Fatalf("REPRODUCED: %d bar rows were pushed into the scrollback (%d bars on a %d-row terminal)", scrolled, H, H)
	}
}
`, true
}

// --- (*pState).flush: a popped bar whose rows were clipped (C18) ----------------------------

func init() {
	replayHarnesses = append(replayHarnesses,
		replayHarness{match: prefixMatch("(*pState).flush/iter#1:shown"), pkgDir: ".", render: renderClippedPop,
			class: func(P *Program, ob *Obligation) string { return "popped-while-clipped" }})
}

// More bars than rows (not a terminal: height == width), pop-completed mode; the top bar,
// whose rows are clipped, completes. Oracle: its finished state is written at least once.
func renderClippedPop(P *Program, ob *Obligation) (string, bool) {
	return `package mpb

import (
	"bytes"
	"fmt"
	"strings"
	"sync"
	"testing"
	"time"
)

type lockedBuf struct {
	mu sync.Mutex
	b  bytes.Buffer
}

func (l *lockedBuf) Write(p []byte) (int, error) { l.mu.Lock(); defer l.mu.Unlock(); return l.b.Write(p) }
func (l *lockedBuf) String() string               { l.mu.Lock(); defer l.mu.Unlock(); return l.b.String() }

func TestGowpReplay(t *testing.T) {
	var out lockedBuf
	const width, n = 30, 34 // not a terminal: height == width == 30 rows, 34 bars
	p := New(WithOutput(&out), WithWidth(width), WithAutoRefresh(), WithRefreshRate(20*time.Millisecond), PopCompletedMode())
	bars := make([]*Bar, n)
	for i := range bars {
		bars[i] = p.AddBar(1, BarFillerOnComplete(fmt.Sprintf("done%02d", i)))
	}
	time.Sleep(100 * time.Millisecond)
	bars[0].Increment() // the top bar (clipped: more bars than rows) finishes
	time.Sleep(200 * time.Millisecond)
	for _, b := range bars[1:] {
		b.Abort(false)
	}
	p.Wait()
	s := out.String()
	shown := strings.Count(s, fmt.Sprintf("done%02d", 0))
	t.Logf("finished state of the popped bar written %d times", shown)
	if shown == 0 {
		t.Fatalf("REPRODUCED: the bar that completed was popped without its finished state ever being written")
	}
}
`, true
}

// --- published state: a getter racing with the late render path (C10) -----------------------

func init() {
	replayHarnesses = append(replayHarnesses,
		replayHarness{match: prefixMatch("static/published-reads:(*Bar)."), pkgDir: ".", render: renderPublishedRace, race: true,
			class: func(P *Program, ob *Obligation) string { return "getter-vs-late-render" }})
}

// A finished bar stays on screen (and is rendered by the late path) while another bar runs;
// the getter named by the obligation is called on it in a loop, under the race detector.
func renderPublishedRace(P *Program, ob *Obligation) (string, bool) {
	name := strings.TrimPrefix(ob.Name, "static/published-reads:(*Bar).")
	if name == "" || strings.ContainsAny(name, " ./") {
		return "", false
	}
	return strings.Replace(`package mpb

import (
	"io"
	"testing"
	"time"
)

// A finished bar keeps being rendered while another bar runs; a getter on the finished bar
// reads the published state.
func TestGowpReplay(t *testing.T) {
	p := New(WithOutput(io.Discard), WithAutoRefresh(), WithRefreshRate(time.Millisecond))
	a := p.AddBar(1)
	b := p.AddBar(100)
	a.Increment()
	a.Wait()
	deadline := time.Now().Add(500 * time.Millisecond)
	for time.Now().Before(deadline) {
		_ = a.Completed()
	}
	b.Abort(false)
	p.Wait()
}
`, "a.Completed()", "a."+name+"()", 1), true
}

// --- manual refresh: what happens after the last requested refresh (C13, C03) ----------------

func init() {
	replayHarnesses = append(replayHarnesses,
		replayHarness{match: prefixMatch("(*Progress).serve/ensures:finalmanual"), pkgDir: ".", render: renderManualPending,
			class: func(P *Program, ob *Obligation) string { return "manual-refresh-pending" }})
}

// Manual refresh, one refresh requested and rendered, then a Write that reports success and
// the completing increment, then Wait. Oracle: the written bytes are in the output.
func renderManualPending(P *Program, ob *Obligation) (string, bool) {
	return `package mpb

import (
	"bytes"
	"strings"
	"sync"
	"testing"
	"time"
)

type lockedBuf struct {
	mu sync.Mutex
	b  bytes.Buffer
}

func (l *lockedBuf) Write(p []byte) (int, error) { l.mu.Lock(); defer l.mu.Unlock(); return l.b.Write(p) }
func (l *lockedBuf) String() string               { l.mu.Lock(); defer l.mu.Unlock(); return l.b.String() }

// Manual refresh: a Write accepted after the last requested refresh must still be emitted
// before Wait returns (C13), and the last frame must show the final state (C03).
func TestGowpReplay(t *testing.T) {
	out := &lockedBuf{}
	rc := make(chan interface{})
	p := New(WithOutput(out), WithManualRefresh(rc), WithWidth(40))
	bar := p.AddBar(2)
	bar.Increment()
	rc <- time.Now()
	time.Sleep(50 * time.Millisecond) // the refresh has been rendered
	n, err := p.Write([]byte("LOGLINE\n"))
	if err != nil || n != 8 {
		t.Fatalf("Write = (%d, %v), want (8, nil)", n, err)
	}
	bar.Increment() // completes the bar
	p.Wait()
	if !strings.Contains(out.String(), "LOGLINE") {
		t.Errorf("manual refresh: REPRODUCED: Write reported (8, nil) but its bytes were never emitted; output=%q", out.String())
	}
}
`, true
}

// --- a bar queued after a bar that was already popped out (C18, C17) -------------------------

func init() {
	replayHarnesses = append(replayHarnesses,
		replayHarness{match: prefixMatch("(*Progress).Add$1/ensures:abovepop"), pkgDir: ".", render: renderQueuedAfterPopped,
			class: func(P *Program, ob *Obligation) string { return "queued-after-popped" }})
}

// pop mode, manual refresh: x finishes and is popped out, then q is queued after x, then y
// finishes. Oracle: in the frame that pops y out, y is the top row.
func renderQueuedAfterPopped(P *Program, ob *Obligation) (string, bool) {
	return `package mpb

import (
	"bytes"
	"strings"
	"sync"
	"testing"
	"time"

	"github.com/vbauerster/mpb/v8/decor"
)

type lb2 struct {
	mu sync.Mutex
	b  bytes.Buffer
}

func (l *lb2) Write(p []byte) (int, error) { l.mu.Lock(); defer l.mu.Unlock(); return l.b.Write(p) }
func (l *lb2) String() string               { l.mu.Lock(); defer l.mu.Unlock(); return l.b.String() }

// pop mode: x finishes and is popped; later a bar is queued after x. It must be a running bar
// below the finished ones, not above them.
func TestGowpReplay(t *testing.T) {
	out := &lb2{}
	rc := make(chan interface{})
	p := New(WithOutput(out), WithManualRefresh(rc), WithWidth(40), PopCompletedMode())
	x := p.AddBar(1, PrependDecorators(decor.Name("xx")))
	y := p.AddBar(1, PrependDecorators(decor.Name("yy")))
	run := p.AddBar(10, PrependDecorators(decor.Name("rr")))
	x.Increment()
	for i := 0; i < 4; i++ {
		rc <- time.Now()
		time.Sleep(20 * time.Millisecond)
	}
	q := p.AddBar(10, BarQueueAfter(x), PrependDecorators(decor.Name("qq")))
	rc <- time.Now()
	time.Sleep(20 * time.Millisecond)
	y.Increment() // y finishes later: must end up above the running bars q and rr
	for i := 0; i < 4; i++ {
		rc <- time.Now()
		time.Sleep(20 * time.Millisecond)
	}
	s := out.String()
	// last frame: order of names
	idx := strings.LastIndex(s, "\x1b[")
	last := s[idx:]
	_ = last
	lines := strings.Split(s, "\n")
	var tail []string
	for _, l := range lines[len(lines)-8:] {
		tail = append(tail, l)
	}
	t.Logf("tail: %q", tail)
	// the last frame that contains yy is the one in which it is popped out: it must be its top row
	frames := strings.Split(s, "\x1b[")
	for i := len(frames) - 1; i >= 0; i-- {
		if strings.Contains(frames[i], "yy") {
			rows := strings.Split(frames[i], "\n")
			if !strings.Contains(rows[0], "yy") {
				t.Errorf("pop mode: REPRODUCED: the finished bar yy is drawn below the running bar %q (queued after an already popped bar)", strings.TrimSpace(rows[0]))
			}
			break
		}
	}
	q.Abort(false)
	run.Abort(false)
	p.Wait()
}
`, true
}

// --- pop mode under a render delay (C18) ----------------------------------------------------

func init() {
	replayHarnesses = append(replayHarnesses,
		replayHarness{match: prefixMatch("(*pState).flush/iter#1:visible"), pkgDir: ".", render: renderDelayedPop,
			class: func(P *Program, ob *Obligation) string { return "popped-while-delayed" }})
}

// pop mode, WithRenderDelay: one bar finishes while the delay is pending, the delay ends, the
// other bar finishes. Oracle: the first bar appears in the output at all.
func renderDelayedPop(P *Program, ob *Obligation) (string, bool) {
	return `package mpb

import (
	"bytes"
	"strings"
	"sync"
	"testing"
	"time"

	"github.com/vbauerster/mpb/v8/decor"
)

type lb4 struct {
	mu sync.Mutex
	b  bytes.Buffer
}

func (l *lb4) Write(p []byte) (int, error) { l.mu.Lock(); defer l.mu.Unlock(); return l.b.Write(p) }
func (l *lb4) String() string               { l.mu.Lock(); defer l.mu.Unlock(); return l.b.String() }

// pop mode with a render delay: a bar that finishes while the delay is pending must still be
// left on screen once, in its finished state, when rendering starts.
func TestGowpReplay(t *testing.T) {
	out := &lb4{}
	delay := make(chan struct{})
	p := New(WithOutput(out), WithAutoRefresh(), WithRefreshRate(10*time.Millisecond), WithWidth(40), PopCompletedMode(), WithRenderDelay(delay))
	early := p.AddBar(1, PrependDecorators(decor.Name("early")))
	late := p.AddBar(2, PrependDecorators(decor.Name("late")))
	early.Increment()
	time.Sleep(100 * time.Millisecond) // several (discarded) render cycles
	close(delay)
	time.Sleep(50 * time.Millisecond)
	late.IncrBy(2)
	p.Wait()
	s := out.String()
	if !strings.Contains(s, "early") {
		t.Errorf("render delay: REPRODUCED: the bar that finished while the render delay was pending never appears in the output (it was popped into the discarded frames); output=%q", s)
	}
}
`, true
}
