package main

// Loading /repo (tags: verif), building naive-form SSA, locating contract files,
// loops, and the static write-set (mod-set) inference.

import (
	"fmt"
	"go/token"
	"go/types"
	"os"
	"path/filepath"
	"sort"
	"strings"

	"golang.org/x/tools/go/packages"
	"golang.org/x/tools/go/ssa"
	"golang.org/x/tools/go/ssa/ssautil"
)

const modulePath = "github.com/vbauerster/mpb/v8"

type Program struct {
	Prog      *ssa.Program
	Pkgs      []*packages.Package
	Fset      *token.FileSet
	Funcs     map[string]*ssa.Function // key: full SSA name
	ModFuncs  []*ssa.Function          // functions of the module, sorted by name
	Spec      *SpecFile
	Contracts map[*ssa.Function]*Contract
	Iface     map[string]*Contract // "pkgpath.Iface.Method" -> contract
	IfaceImpls map[string][]*ssa.Function // same key -> the module's methods implementing it
	FuncTypeImpls map[string][]*ssa.Function // functype name -> module functions used as values of it
	ExtFuncValues map[string][]string // functype name -> external functions stored as values of it (assumed to satisfy it)
	ChanInv   map[string]*Contract // "Type.field" -> contract
	FuncType  map[string]*Contract
	Unbound   []string
	Rebound   []string // contracts bound with the help of the shape snapshot (renumbered closures, renamed identifiers)
	modsets   map[*ssa.Function]map[string]bool
	U         *Universe
	RepoDir   string
	closable  map[string]bool // channel roles that some function of the module closes
	closableElems []types.Type // element types of the channels the module closes
	proveAll  map[*ssa.Function]bool // dependency functions of the current property: all clauses proved
	loopCache map[*ssa.Function][]*Loop
	dtCache   map[string]*Datatype
	typeTags  map[string]int
	tagTypes  []types.Type
}

func inModule(pkg *types.Package) bool {
	return pkg != nil && (pkg.Path() == modulePath || strings.HasPrefix(pkg.Path(), modulePath+"/"))
}

func fnInModule(fn *ssa.Function) bool {
	if fn == nil {
		return false
	}
	if fn.Pkg != nil {
		return inModule(fn.Pkg.Pkg)
	}
	if fn.Parent() != nil {
		return fnInModule(fn.Parent())
	}
	if fn.Object() != nil {
		return inModule(fn.Object().Pkg())
	}
	return false
}

func fnPkg(fn *ssa.Function) *types.Package {
	for f := fn; f != nil; f = f.Parent() {
		if f.Pkg != nil {
			return f.Pkg.Pkg
		}
		if f.Object() != nil && f.Object().Pkg() != nil {
			return f.Object().Pkg()
		}
	}
	return nil
}

// relName is the contract key: the SSA name relative to the function's own package.
func relName(fn *ssa.Function) string {
	if a, ok := nameAlias[fn]; ok {
		return a // a renumbered closure keeps the name its contract (and everything that refers to it) uses
	}
	return fn.RelString(fnPkg(fn))
}

// nameAlias: closures bound to a contract under another ordinal (shape.go).
var nameAlias = map[*ssa.Function]string{}

func LoadProgram(repo string) (*Program, error) {
	env := append(os.Environ(), "GOFLAGS=-mod=mod", "GOPROXY=off", "GOSUMDB=off", "GOTOOLCHAIN=local")
	cfg := &packages.Config{Mode: packages.LoadAllSyntax, Dir: repo, BuildFlags: []string{"-tags=verif"}, Env: env}
	pkgs, err := packages.Load(cfg, "./...")
	if err != nil {
		return nil, err
	}
	var errs []string
	var modPkgs []*packages.Package
	for _, p := range pkgs {
		if strings.Contains(p.PkgPath, "/_examples") {
			continue
		}
		for _, e := range p.Errors {
			errs = append(errs, e.Error())
		}
		modPkgs = append(modPkgs, p)
	}
	if len(errs) > 0 {
		return nil, fmt.Errorf("the tree does not type-check:\n%s", strings.Join(errs, "\n"))
	}
	prog, _ := ssautil.AllPackages(modPkgs, ssa.NaiveForm|ssa.GlobalDebug|ssa.BareInits)
	prog.Build()
	P := &Program{Prog: prog, Pkgs: modPkgs, Fset: prog.Fset, Funcs: map[string]*ssa.Function{},
		Contracts: map[*ssa.Function]*Contract{}, Iface: map[string]*Contract{}, ChanInv: map[string]*Contract{},
		FuncType: map[string]*Contract{}, modsets: map[*ssa.Function]map[string]bool{}, U: NewUniverse(), RepoDir: repo,
		loopCache: map[*ssa.Function][]*Loop{}, dtCache: map[string]*Datatype{}, typeTags: map[string]int{}}
	for fn := range ssautil.AllFunctions(prog) {
		if fn.Synthetic != "" && fn.Blocks == nil {
			continue
		}
		P.Funcs[fn.String()] = fn
		if fnInModule(fn) && fn.Blocks != nil && fn.Synthetic == "" {
			P.ModFuncs = append(P.ModFuncs, fn)
		}
	}
	sort.Slice(P.ModFuncs, func(i, j int) bool { return P.ModFuncs[i].String() < P.ModFuncs[j].String() })
	P.closable = map[string]bool{}
	for _, fn := range P.ModFuncs {
		for _, b := range fn.Blocks {
			for _, in := range b.Instrs {
				if c, ok := in.(ssa.CallInstruction); ok {
					if bi, ok := c.Common().Value.(*ssa.Builtin); ok && bi.Name() == "close" {
						P.closable[chanRole(c.Common().Args[0])] = true
						if ct, ok := c.Common().Args[0].Type().Underlying().(*types.Chan); ok {
							P.closableElems = append(P.closableElems, ct.Elem())
						}
					}
				}
			}
		}
	}
	specTypeRenames = typeRenames(modPkgs, readShapes())
	for o, n := range specTypeRenames {
		P.Rebound = append(P.Rebound, fmt.Sprintf("type %s renamed to %s in the contracts", o, n))
	}
	P.Spec = &SpecFile{Defs: map[string]*SpecDef{}}
	for _, p := range modPkgs {
		if !inModule(p.Types) {
			continue
		}
		for _, f := range p.GoFiles {
			if filepath.Base(f) == "contracts_verif.go" {
				if err := parseSpecFile(f, p.PkgPath, P.Spec); err != nil {
					return nil, err
				}
			}
		}
	}
	// bind
	byRel := map[string]*ssa.Function{}
	for _, fn := range P.ModFuncs {
		byRel[fnPkg(fn).Path()+"::"+relName(fn)] = fn
	}
	shapes := readShapes()
	rebound := P.rebindClosures(byRel, shapes, P.renamedFunctions(byRel, shapes))
	for key, fn := range rebound {
		nameAlias[fn] = key[strings.Index(key, "::")+2:]
	}
	fren := P.fieldRenames(shapes)
	for _, c := range P.Spec.Contracts {
		renameFieldsInContract(c, fren)
	}
	for _, ti := range P.Spec.TypeInvs {
		if ti.Clause != nil && len(fren) > 0 {
			tmp := &Contract{Requires: []*Clause{ti.Clause}}
			renameFieldsInContract(tmp, fren)
		}
	}
	// a closure that now occupies a name given away gets a name of its own
	for key := range rebound {
		if other := byRel[key]; other != nil {
			if _, aliased := nameAlias[other]; !aliased {
				nameAlias[other] = other.RelString(fnPkg(other)) + "~"
			}
		}
	}
	for _, c := range P.Spec.Contracts {
		switch c.Kind {
		case "func":
			fn := byRel[c.Pkg+"::"+c.Name]
			if rf := rebound[c.Pkg+"::"+c.Name]; rf != nil {
				fn = rf
			}
			if fn != nil && shapes != nil {
				if old, ok := shapes[c.Pkg+"::"+c.Name]; ok {
					P.renameForShape(c, fn, old)
				}
			}
			if fn == nil {
				P.Unbound = append(P.Unbound, c.Pkg+"::"+c.Name)
				continue
			}
			P.Contracts[fn] = c
		case "iface":
			P.Iface[c.Pkg+"."+c.Name] = c
		case "chan":
			if prev := P.ChanInv[c.Name]; prev != nil {
				prev.Ensures = append(prev.Ensures, c.Ensures...)
				prev.Assumes = append(prev.Assumes, c.Assumes...)
				prev.OnClose = append(prev.OnClose, c.OnClose...)
				prev.Requires = append(prev.Requires, c.Requires...)
			} else {
				P.ChanInv[c.Name] = c
			}
		case "functype":
			P.FuncType[c.Name] = c
		}
	}
	P.bindImplementations(byRel)
	P.bindFuncValues()
	return P, nil
}

// bindFuncValues: the same for function values. A function of the module (closure or named)
// that is stored in a struct field with a `functype <Struct.field>` contract, or converted to
// a named func type with one, must satisfy that contract: its postconditions are added to the
// function's own (label functype:<name>:<label>), its frame where the function declares none,
// and its preconditions must imply the function's own (refine obligations). Clauses that
// mention `self` (the object holding the field) cannot be stated for the function alone and
// are left to the call sites. External functions stored this way are assumed to satisfy the
// contract and are listed (ExtFuncValues).
func (P *Program) bindFuncValues() {
	P.ExtFuncValues = map[string][]string{}
	P.FuncTypeImpls = map[string][]*ssa.Function{}
	var fns []*ssa.Function
	for _, fn := range P.ModFuncs {
		fns = append(fns, fn)
	}
	sort.Slice(fns, func(i, j int) bool { return fns[i].String() < fns[j].String() })
	done := map[string]bool{}
	bind := func(name string, ct *Contract, v ssa.Value) {
		for {
			if c, ok := v.(*ssa.ChangeType); ok {
				v = c.X
				continue
			}
			break
		}
		var target *ssa.Function
		switch x := v.(type) {
		case *ssa.MakeClosure:
			target = x.Fn.(*ssa.Function)
		case *ssa.Function:
			target = x
		default:
			return
		}
		if target.Blocks == nil || !fnInModule(target) {
			lst := P.ExtFuncValues[name]
			for _, e := range lst {
				if e == target.String() {
					return
				}
			}
			P.ExtFuncValues[name] = append(lst, target.String())
			return
		}
		key := name + "<-" + target.String()
		if done[key] {
			return
		}
		done[key] = true
		tc := P.Contracts[target]
		if tc != nil && tc.Trusted {
			return
		}
		if tc == nil {
			tc = &Contract{Kind: "func", Name: relName(target), Pkg: fnPkg(target).Path(), File: ct.File, Line: ct.Line,
				LoopInv: map[int][]*Clause{}, LoopDec: map[int]*Clause{}, LoopMod: map[int][]*Expr{}, LoopEns: map[int][]*Clause{}, LoopAsm: map[int][]*Clause{}}
			P.Contracts[target] = tc
		}
		ren := map[string]string{}
		for i, pn := range ct.Params {
			if i < len(target.Params) {
				ren[pn] = target.Params[i].Name()
			}
		}
		rc := func(cl *Clause, label string) *Clause {
			n := *cl
			n.Expr = renameIdents(cl.Expr, ren)
			n.Label = label
			return &n
		}
		for i, en := range ct.Ensures {
			if exprMentions(en.Expr, "self") {
				continue
			}
			l := en.Label
			if l == "" {
				l = fmt.Sprint(i + 1)
			}
			tc.Ensures = append(tc.Ensures, rc(en, "functype:"+name+":"+l))
		}
		if tc.IfaceReq == nil {
			tc.IfaceReq = map[string][]*Clause{}
		}
		tc.IfaceReq[name] = []*Clause{}
		inherit := true // the implementation is verified under the func type's preconditions too (direct callers must establish them as well)
		for _, rq := range ct.Requires {
			if exprMentions(rq.Expr, "self") {
				continue
			}
			tc.IfaceReq[name] = append(tc.IfaceReq[name], rc(rq, rq.Label))
			if inherit {
				tc.Requires = append(tc.Requires, rc(rq, rq.Label))
			}
		}
		if !tc.HasMod && ct.HasMod {
			selfFree := true
			for _, m := range ct.Modifies {
				if exprMentions(m, "self") {
					selfFree = false
				}
			}
			if selfFree {
				tc.HasMod = true
				for _, m := range ct.Modifies {
					tc.Modifies = append(tc.Modifies, renameIdents(m, ren))
				}
			}
		}
		P.FuncTypeImpls[name] = append(P.FuncTypeImpls[name], target)
	}
	for _, fn := range fns {
		for _, b := range fn.Blocks {
			for _, in := range b.Instrs {
				switch x := in.(type) {
				case *ssa.Store:
					fa, ok := x.Addr.(*ssa.FieldAddr)
					if !ok {
						continue
					}
					stT := derefType(fa.X.Type())
					stt, ok := stT.Underlying().(*types.Struct)
					if !ok {
						continue
					}
					name := structName(stT) + "." + stt.Field(fa.Field).Name()
					if ct := P.FuncType[name]; ct != nil {
						bind(name, ct, x.Val)
					}
				case *ssa.ChangeType:
					if nt, ok := types.Unalias(x.Type()).(*types.Named); ok && inModule(nt.Obj().Pkg()) {
						if ct := P.FuncType[nt.Obj().Name()]; ct != nil {
							bind(nt.Obj().Name(), ct, x.X)
						}
					}
				}
			}
		}
	}
}

// bindImplementations: behavioural subtyping, mechanically. Every method of the module that
// implements an interface method under contract must satisfy that contract: its postconditions
// are added to the method's own (label iface:<Iface.Method>:<label>), its frame becomes the
// method's frame where the method declares none, and its preconditions must imply the
// method's own (obligations of kind refine).
func (P *Program) bindImplementations(byRel map[string]*ssa.Function) {
	P.IfaceImpls = map[string][]*ssa.Function{}
	var keys []string
	for k := range P.Iface {
		keys = append(keys, k)
	}
	sort.Strings(keys)
	var fns []*ssa.Function
	for _, fn := range P.ModFuncs {
		fns = append(fns, fn)
	}
	sort.Slice(fns, func(i, j int) bool { return fns[i].String() < fns[j].String() })
	for _, k := range keys {
		ic := P.Iface[k]
		dot := strings.LastIndex(ic.Name, ".")
		if dot < 0 {
			continue
		}
		iname, mname := ic.Name[:dot], ic.Name[dot+1:]
		var it *types.Interface
		for _, pkg := range P.Prog.AllPackages() {
			if pkg.Pkg.Path() != ic.Pkg {
				continue
			}
			if o := pkg.Pkg.Scope().Lookup(iname); o != nil {
				it, _ = o.Type().Underlying().(*types.Interface)
			}
		}
		if it == nil {
			continue
		}
		for _, fn := range fns {
			if fn.Parent() != nil || fn.Signature.Recv() == nil || fn.Name() != mname || fn.Blocks == nil || fn.Synthetic != "" {
				continue
			}
			rt := fn.Signature.Recv().Type()
			if !types.Implements(rt, it) {
				continue
			}
			ct := P.Contracts[fn]
			if ct != nil && ct.Trusted {
				continue
			}
			if ct == nil {
				ct = &Contract{Kind: "func", Name: relName(fn), Pkg: fnPkg(fn).Path(), File: ic.File, Line: ic.Line,
					LoopInv: map[int][]*Clause{}, LoopDec: map[int]*Clause{}, LoopMod: map[int][]*Expr{}, LoopEns: map[int][]*Clause{}, LoopAsm: map[int][]*Clause{}}
				P.Contracts[fn] = ct
			}
			ren := map[string]string{"self": fn.Params[0].Name()}
			for i, pn := range ic.Params {
				if i+1 < len(fn.Params) {
					ren[pn] = fn.Params[i+1].Name()
				}
			}
			rc := func(cl *Clause, label string) *Clause {
				n := *cl
				n.Expr = renameIdents(cl.Expr, ren)
				n.Label = label
				return &n
			}
			for i, en := range ic.Ensures {
				l := en.Label
				if l == "" {
					l = fmt.Sprint(i + 1)
				}
				ct.Ensures = append(ct.Ensures, rc(en, "iface:"+ic.Name+":"+l))
			}
			if ct.IfaceReq == nil {
				ct.IfaceReq = map[string][]*Clause{}
			}
			ct.IfaceReq[ic.Name] = []*Clause{}
			inherit := len(ct.Requires) == 0 // no preconditions of its own: it is written against the interface's
			for _, rq := range ic.Requires {
				ct.IfaceReq[ic.Name] = append(ct.IfaceReq[ic.Name], rc(rq, rq.Label))
				if inherit {
					ct.Requires = append(ct.Requires, rc(rq, rq.Label))
				}
			}
			if !ct.HasMod && ic.HasMod {
				ct.HasMod = true
				for _, m := range ic.Modifies {
					ct.Modifies = append(ct.Modifies, renameIdents(m, ren))
				}
			}
			P.IfaceImpls[k] = append(P.IfaceImpls[k], fn)
		}
	}
}

func renameIdents(e *Expr, ren map[string]string) *Expr {
	if e == nil {
		return nil
	}
	n := *e
	if e.Kind == "ident" {
		if r, ok := ren[e.Name]; ok {
			n.Name = r
		}
	}
	n.Args = nil
	for _, a := range e.Args {
		n.Args = append(n.Args, renameIdents(a, ren))
	}
	return &n
}

func (P *Program) pos(p token.Pos) string {
	if !p.IsValid() {
		return "?"
	}
	ps := P.Fset.Position(p)
	rel, err := filepath.Rel(P.RepoDir, ps.Filename)
	if err != nil {
		rel = ps.Filename
	}
	return fmt.Sprintf("%s:%d", rel, ps.Line)
}

// mayBeClosed: can a channel of this type be one the module closes? Channels of different
// element types never alias, so only element types of closed channels qualify. (Channels
// supplied and closed by the user are the user's responsibility.)
func (P *Program) mayBeClosed(t types.Type) bool {
	ct, ok := t.Underlying().(*types.Chan)
	if !ok {
		return true
	}
	for _, e := range P.closableElems {
		if types.Identical(e, ct.Elem()) {
			return true
		}
	}
	return false
}

// ---------------------------------------------------------------------------
// loops

type Loop struct {
	Ordinal int
	Head    *ssa.BasicBlock
	Body    map[*ssa.BasicBlock]bool // includes head
	Cells   []*ssa.Alloc             // cells assigned in the body
	Mods    map[string]bool          // heap keys written in the body
}

func (P *Program) Loops(fn *ssa.Function) []*Loop {
	if ls, ok := P.loopCache[fn]; ok {
		return ls
	}
	heads := map[*ssa.BasicBlock]*Loop{}
	var order []*ssa.BasicBlock
	for _, b := range fn.Blocks {
		for _, s := range b.Succs {
			if s.Dominates(b) { // back edge b -> s
				l := heads[s]
				if l == nil {
					l = &Loop{Head: s, Body: map[*ssa.BasicBlock]bool{s: true}, Mods: map[string]bool{}}
					heads[s] = l
					order = append(order, s)
				}
				// natural loop: all blocks that reach b without passing s
				stack := []*ssa.BasicBlock{b}
				for len(stack) > 0 {
					x := stack[len(stack)-1]
					stack = stack[:len(stack)-1]
					if l.Body[x] {
						continue
					}
					l.Body[x] = true
					stack = append(stack, x.Preds...)
				}
			}
		}
	}
	sort.Slice(order, func(i, j int) bool { return order[i].Index < order[j].Index })
	var out []*Loop
	for i, h := range order {
		l := heads[h]
		l.Ordinal = i + 1
		out = append(out, l)
	}
	P.loopCache[fn] = out
	return out
}

// ---------------------------------------------------------------------------
// heap keys and mod-sets

func structName(t types.Type) string {
	t = types.Unalias(t)
	if n, ok := t.(*types.Named); ok {
		o := n.Obj()
		if o.Pkg() != nil {
			p := o.Pkg().Path()
			p = strings.TrimPrefix(p, modulePath)
			p = strings.TrimPrefix(p, "/")
			if p == "" {
				return o.Name()
			}
			return strings.NewReplacer("/", "_", ".", "_", "-", "_").Replace(p) + "_" + o.Name()
		}
		return o.Name()
	}
	return sanitize(t.String())
}

func sanitize(s string) string {
	var sb strings.Builder
	for _, r := range s {
		switch {
		case r >= 'a' && r <= 'z', r >= 'A' && r <= 'Z', r >= '0' && r <= '9', r == '_':
			sb.WriteRune(r)
		case r == '*':
			sb.WriteString("P")
		case r == '[' || r == ']':
			sb.WriteString("A")
		default:
			sb.WriteString("_")
		}
	}
	return sb.String()
}

func fieldKey(st types.Type, idx int) string {
	s := st.Underlying().(*types.Struct)
	return "F$" + structName(st) + "$" + s.Field(idx).Name()
}

const (
	modAll    = "#ALL"
	ghSent    = "#sent"
	ghClosed  = "#closed"
	ghRecvd   = "#recvd"
	ghLast    = "#last"
	ghSpawn   = "#spawn"
	ghCancels = "#cancels"
)

// ModSet returns the heap keys a function may write (transitively through static calls).
func (P *Program) ModSet(fn *ssa.Function) map[string]bool {
	if m, ok := P.modsets[fn]; ok {
		return m
	}
	m := map[string]bool{}
	P.modsets[fn] = m // break recursion (fixpoint below)
	for changed := true; changed; {
		changed = false
		n := len(m)
		P.collectMods(fn, m)
		if len(m) != n {
			changed = true
		}
	}
	return m
}

func derefType(t types.Type) types.Type {
	if p, ok := t.Underlying().(*types.Pointer); ok {
		return p.Elem()
	}
	return t
}

// rootOfAddr walks FieldAddr/IndexAddr chains back to the base pointer value and returns the
// heap key of the outermost location written.
func (P *Program) addrKey(v ssa.Value, fresh map[ssa.Value]bool) (key string, isFresh bool, isLocal bool) {
	switch a := v.(type) {
	case *ssa.FieldAddr:
		// struct-typed base pointer: if base itself is an address expression, recurse to its root
		k, fr, loc := P.addrKey(a.X, fresh)
		if k != "" || loc {
			return k, fr, loc
		}
		st := derefType(a.X.Type())
		return fieldKey(st, a.Field), fresh[a.X], false
	case *ssa.IndexAddr:
		switch derefType(a.X.Type()).Underlying().(type) {
		case *types.Array:
			k, fr, loc := P.addrKey(a.X, fresh)
			if k != "" || loc {
				return k, fr, loc
			}
			return "E$" + sortNameOfType(derefType(a.X.Type()).Underlying().(*types.Array).Elem()), fresh[a.X], false
		}
		if sl, ok := a.X.Type().Underlying().(*types.Slice); ok {
			return "E$" + sortNameOfType(sl.Elem()), false, false
		}
		return "", false, false
	case *ssa.Alloc:
		if a.Heap || isAggregate(derefType(a.Type())) {
			if _, isStruct := derefType(a.Type()).Underlying().(*types.Struct); isStruct {
				return "", true, false // resolved by the FieldAddr caller: fresh object
			}
			if _, isArr := derefType(a.Type()).Underlying().(*types.Array); isArr {
				return "", true, false
			}
		}
		return "", false, true // plain local cell
	case *ssa.FreeVar:
		return "", false, true // captured variable cell: treated as the closure's own cell
	}
	return "", false, false
}

func isAggregate(t types.Type) bool {
	switch t.Underlying().(type) {
	case *types.Struct, *types.Array:
		return true
	}
	return false
}

// sortNameOfType names the memory region of values of a Go type (element arrays E$..., boxed
// cells M$...). Regions are per Go type, not per SMT sort: slices and pointers of different
// types never alias (no unsafe in the subset).
func sortNameOfType(t types.Type) string {
	return sanitize(types.TypeString(types.Unalias(t), func(p *types.Package) string { return p.Name() }))
}

// freshValues computes SSA values that certainly denote objects allocated in this call.
func freshValues(fn *ssa.Function) map[ssa.Value]bool {
	fresh := map[ssa.Value]bool{}
	cellFresh := map[*ssa.Alloc]bool{}
	cellSeen := map[*ssa.Alloc]bool{}
	for _, b := range fn.Blocks {
		for _, in := range b.Instrs {
			if a, ok := in.(*ssa.Alloc); ok && isAggregate(derefType(a.Type())) {
				fresh[a] = true
			}
		}
	}
	for iter := 0; iter < 3; iter++ {
		for k := range cellFresh {
			delete(cellFresh, k)
		}
		for k := range cellSeen {
			delete(cellSeen, k)
		}
		for _, b := range fn.Blocks {
			for _, in := range b.Instrs {
				if s, ok := in.(*ssa.Store); ok {
					if c, ok := s.Addr.(*ssa.Alloc); ok && !isAggregate(derefType(c.Type())) {
						if !cellSeen[c] {
							cellSeen[c] = true
							cellFresh[c] = true
						}
						if !fresh[s.Val] {
							cellFresh[c] = false
						}
					}
				}
			}
		}
		for _, b := range fn.Blocks {
			for _, in := range b.Instrs {
				if u, ok := in.(*ssa.UnOp); ok && u.Op == token.MUL {
					if c, ok := u.X.(*ssa.Alloc); ok && cellFresh[c] {
						fresh[u] = true
					}
				}
			}
		}
	}
	return fresh
}

func (P *Program) collectMods(fn *ssa.Function, m map[string]bool) {
	fresh := freshValues(fn)
	for _, b := range fn.Blocks {
		for _, in := range b.Instrs {
			P.instrMods(fn, in, fresh, m)
		}
	}
}

func (P *Program) instrMods(fn *ssa.Function, in ssa.Instruction, fresh map[ssa.Value]bool, m map[string]bool) {
	switch x := in.(type) {
	case *ssa.Store:
		k, fr, loc := P.addrKey(x.Addr, fresh)
		if loc || fr {
			return
		}
		if k != "" {
			m[k] = true
			if k == "F$Bar$priority" {
				m[ghHord] = true
				m[ghHdirty] = true
			}
			return
		}
		// store through a pointer value
		et := derefType(x.Addr.Type())
		if st, ok := et.Underlying().(*types.Struct); ok {
			for i := 0; i < st.NumFields(); i++ {
				m[fieldKey(et, i)] = true
			}
			return
		}
		if fresh[x.Addr] {
			return
		}
		m["M$"+sortNameOfType(et)] = true
	case *ssa.MapUpdate:
		dk, vk := mapKeys(x.Map.Type())
		m[dk] = true
		m[vk] = true
	case *ssa.Send:
		m[ghSent] = true
		m[ghLast] = true
		if ct := P.ChanInv[chanRole(x.Chan)]; ct != nil && len(ct.Requires) > 0 {
			m[ghClosed] = true
		}
	case *ssa.Select:
		for _, s := range x.States {
			if s.Dir == types.SendOnly {
				m[ghSent] = true
				m[ghLast] = true
			} else {
				m[ghRecvd] = true
			}
		}
	case *ssa.UnOp:
		if x.Op == token.ARROW {
			m[ghRecvd] = true
		}
	case *ssa.Go:
		if callee := x.Call.StaticCallee(); callee != nil {
			m[ghSpawn+"$"+relName(callee)] = true
		} else {
			m[ghSpawn] = true
		}
	case ssa.CallInstruction:
		P.callMods(fn, x.Common(), m)
	}
}

func (P *Program) callMods(fn *ssa.Function, c *ssa.CallCommon, m map[string]bool) {
	if b, ok := c.Value.(*ssa.Builtin); ok {
		switch b.Name() {
		case "close":
			m[ghClosed] = true
		case "delete":
			dk, vk := mapKeys(c.Args[0].Type())
			m[dk] = true
			m[vk] = true
		case "append":
			if sl, ok := c.Args[0].Type().Underlying().(*types.Slice); ok {
				m["E$"+sortNameOfType(sl.Elem())] = true
			}
		case "copy":
			if sl, ok := c.Args[0].Type().Underlying().(*types.Slice); ok {
				m["E$"+sortNameOfType(sl.Elem())] = true
			}
		}
		return
	}
	if callee := c.StaticCallee(); callee != nil {
		if ct := P.Contracts[callee]; ct != nil && ct.HasMod {
			for _, k := range P.declaredModKeys(callee, ct) {
				m[k] = true
			}
			return
		}
		if fnInModule(callee) && callee.Blocks != nil {
			if callee == fn {
				return
			}
			for k := range P.ModSet(callee) {
				m[k] = true
			}
			return
		}
		for _, k := range externalMods(callee, c) {
			m[k] = true
		}
		return
	}
	if c.IsInvoke() {
		if ct := P.ifaceContract(c); ct != nil && ct.HasMod {
			for _, k := range P.declaredModKeysIface(ct) {
				m[k] = true
			}
			return
		}
		if ks, ok := externalIfaceMods(c); ok {
			for _, k := range ks {
				m[k] = true
			}
			return
		}
		m[modAll] = true
		return
	}
	// dynamic call of a function value
	if ct := P.funcTypeContract(c); ct != nil && ct.HasMod {
		for _, k := range P.declaredModKeysIface(ct) {
			m[k] = true
		}
		return
	}
	if ct := P.FuncType[dynNameOf(fn, c.Value)]; ct != nil && ct.HasMod {
		for _, k := range P.declaredModKeysIface(ct) {
			m[k] = true
		}
		return
	}
	mc, _ := c.Value.(*ssa.MakeClosure)
	var plain *ssa.Function // a function literal without captured variables is a plain function value
	if mc == nil {
		// a local variable assigned exactly one closure
		if u, ok := c.Value.(*ssa.UnOp); ok {
			if cell, ok := u.X.(*ssa.Alloc); ok {
				var only *ssa.MakeClosure
				var onlyFn *ssa.Function
				n := 0
				if refs := cell.Referrers(); refs != nil {
					for _, r := range *refs {
						if st, ok := r.(*ssa.Store); ok && st.Addr == ssa.Value(cell) {
							n++
							only, _ = st.Val.(*ssa.MakeClosure)
							onlyFn, _ = st.Val.(*ssa.Function)
						}
					}
				}
				if n == 1 {
					mc = only
					plain = onlyFn
				}
			}
		}
	}
	if plain != nil && plain != fn && fnInModule(plain) && plain.Blocks != nil {
		if ct := P.Contracts[plain]; ct != nil && ct.HasMod {
			for _, k := range P.declaredModKeys(plain, ct) {
				m[k] = true
			}
			return
		}
		for k := range P.ModSet(plain) {
			m[k] = true
		}
		return
	}
	if mc != nil {
		if cf, ok := mc.Fn.(*ssa.Function); ok && cf != fn {
			if ct := P.Contracts[cf]; ct != nil && ct.HasMod {
				for _, k := range P.declaredModKeys(cf, ct) {
					m[k] = true
				}
				return
			}
			for k := range P.ModSet(cf) {
				m[k] = true
			}
			return
		}
	}
	m[modAll] = true
}

func (P *Program) ifaceContract(c *ssa.CallCommon) *Contract {
	if !c.IsInvoke() {
		return nil
	}
	recv := types.Unalias(c.Value.Type())
	name := ""
	if n, ok := recv.(*types.Named); ok && n.Obj().Pkg() != nil {
		name = n.Obj().Pkg().Path() + "." + n.Obj().Name() + "." + c.Method.Name()
	} else {
		return nil
	}
	if ct := P.Iface[name]; ct != nil {
		return ct
	}
	// embedded interfaces: find the interface that declares the method
	if c.Method.Pkg() != nil {
		for k, ct := range P.Iface {
			if strings.HasPrefix(k, c.Method.Pkg().Path()+".") && strings.HasSuffix(k, "."+c.Method.Name()) {
				// check that the named interface has this very method object
				parts := strings.Split(strings.TrimPrefix(k, c.Method.Pkg().Path()+"."), ".")
				if o := c.Method.Pkg().Scope().Lookup(parts[0]); o != nil {
					if it, ok := o.Type().Underlying().(*types.Interface); ok {
						for i := 0; i < it.NumMethods(); i++ {
							if it.Method(i) == c.Method {
								return ct
							}
						}
					}
				}
			}
		}
	}
	return nil
}

func (P *Program) funcTypeContract(c *ssa.CallCommon) *Contract {
	t := types.Unalias(c.Value.Type())
	if n, ok := t.(*types.Named); ok && n.Obj().Pkg() != nil {
		return P.FuncType[n.Obj().Name()]
	}
	return nil
}

// declaredModKeys converts a contract's modifies clause into heap keys (wildcards per field).
func (P *Program) declaredModKeys(fn *ssa.Function, ct *Contract) []string {
	var out []string
	for _, e := range ct.Modifies {
		out = append(out, P.modExprKeys(fn, ct, e)...)
	}
	return out
}

func (P *Program) declaredModKeysIface(ct *Contract) []string {
	var out []string
	for _, e := range ct.Modifies {
		out = append(out, P.modExprKeys(nil, ct, e)...)
	}
	return out
}

// modExprKeys: forms accepted in modifies clauses
//
//	x.f          location (x evaluated in the pre-state); key F$T$f with T the static type of x
//	T.f          every object's field f (T a struct type name of the contract's package)
//	sent(ch) closed(ch) recvd(ch) spawned() heap
func (P *Program) modExprKeys(fn *ssa.Function, ct *Contract, e *Expr) []string {
	switch e.Kind {
	case "ident":
		switch e.Name {
		case "heap":
			return []string{modAll}
		case "hordstate":
			return []string{ghHord, ghHdirty, ghHbound}
		case "spawned":
			return []string{ghSpawn}
		}
	case "call":
		switch e.Name {
		case "sent":
			if len(e.Args) == 1 && e.Args[0].Kind == "str" {
				return []string{ghSent + ":" + e.Args[0].Lit}
			}
			return []string{ghSent, ghLast}
		case "closed":
			return []string{ghClosed}
		case "recvd":
			if len(e.Args) == 1 && e.Args[0].Kind == "str" {
				return []string{ghRecvd + ":" + e.Args[0].Lit}
			}
			return []string{ghRecvd}
		case "cancelled":
			return []string{ghCancelled}
		case "hordstate":
			return []string{ghHord, ghHdirty, ghHbound}
		case "maps":
			var out []string
			for k := range heapSorts {
				if strings.HasPrefix(k, "MD$") || strings.HasPrefix(k, "MV$") {
					out = append(out, k)
				}
			}
			sort.Strings(out)
			return append(out, "MD$Int$Int", "MV$Int$Int", "MD$Int$Slice", "MV$Int$Slice")
		case "written":
			return []string{ghBuf}
		case "content":
			return []string{ghRd}
		case "pkgstate":
			// every field of every struct type of the named package of the module
			var out []string
			if len(e.Args) == 1 && e.Args[0].Kind == "str" {
				for _, p := range P.Pkgs {
					if p.Types.Name() != e.Args[0].Lit || !inModule(p.Types) {
						continue
					}
					sc := p.Types.Scope()
					for _, n := range sc.Names() {
						if tn, ok := sc.Lookup(n).(*types.TypeName); ok {
							if st, ok := tn.Type().Underlying().(*types.Struct); ok {
								for i := 0; i < st.NumFields(); i++ {
									out = append(out, fieldKey(tn.Type(), i))
								}
							}
						}
					}
				}
			}
			return out
		case "spawned":
			if len(e.Args) == 1 && e.Args[0].Kind == "str" {
				return []string{ghSpawn + "$" + e.Args[0].Lit}
			}
			return []string{ghSpawn}
		case "elems", "mem":
			// elems("T"): the element arrays of []T / [N]T; mem("T"): cells holding a T reached through *T
			if len(e.Args) == 1 {
				prefix := "E$"
				if e.Name == "mem" {
					prefix = "M$"
				}
				if e.Args[0].Kind == "str" {
					if t := P.resolveTypeName(ct.Pkg, e.Args[0].Lit); t != nil {
						return []string{prefix + sortNameOfType(t)}
					}
					return []string{"#BAD:" + e.String()}
				}
				return []string{prefix + e.Args[0].String()}
			}
		case "mapof":
			if len(e.Args) == 1 {
				return []string{"MAP$" + e.Args[0].String()}
			}
		}
	case "sel":
		// T.f wildcard?
		if e.Args[0].Kind == "ident" {
			if tn := P.lookupTypeName(ct.Pkg, e.Args[0].Name); tn != nil {
				if st, ok := tn.Type().Underlying().(*types.Struct); ok {
					for i := 0; i < st.NumFields(); i++ {
						if fieldIs(tn.Type(), st.Field(i), e.Name) {
							return []string{fieldKey(tn.Type(), i)}
						}
					}
				}
			}
		}
		// location: the static type of the base must be resolvable
		if fn != nil {
			if t := P.staticTypeOf(fn, e.Args[0]); t != nil {
				bt := derefType(t)
				if st, ok := bt.Underlying().(*types.Struct); ok {
					for i := 0; i < st.NumFields(); i++ {
						if fieldIs(bt, st.Field(i), e.Name) {
							return []string{fieldKey(bt, i)}
						}
					}
				}
			}
		}
	}
	return []string{"#BAD:" + e.String()}
}

// resolveTypeName: "T", "*T", "[]T", "pkg.T" or a basic type name, in the scope of a package.
func (P *Program) resolveTypeName(pkgPath, name string) types.Type {
	if strings.HasPrefix(name, "*") {
		if t := P.resolveTypeName(pkgPath, name[1:]); t != nil {
			return types.NewPointer(t)
		}
		return nil
	}
	if strings.HasPrefix(name, "[]") {
		if t := P.resolveTypeName(pkgPath, name[2:]); t != nil {
			return types.NewSlice(t)
		}
		return nil
	}
	for _, pre := range []string{"<-chan ", "chan<- ", "chan "} {
		if strings.HasPrefix(name, pre) {
			if t := P.resolveTypeName(pkgPath, name[len(pre):]); t != nil {
				return types.NewChan(types.SendRecv, t)
			}
			return nil
		}
	}
	if name == "struct{}" {
		return types.NewStruct(nil, nil)
	}
	if name == "interface{}" || name == "any" {
		return types.NewInterfaceType(nil, nil)
	}
	if i := strings.LastIndex(name, "."); i >= 0 {
		return P.lookupNamedType(name[:i], name[i+1:])
	}
	if tn := P.lookupTypeName(pkgPath, name); tn != nil {
		return tn.Type()
	}
	if o, ok := types.Universe.Lookup(name).(*types.TypeName); ok {
		return o.Type()
	}
	return nil
}

// lookupNamedType finds a named type of any loaded (possibly external) package by package name.
func (P *Program) lookupNamedType(pkgName, name string) types.Type {
	var found types.Type
	packages.Visit(P.Pkgs, nil, func(p *packages.Package) {
		if found == nil && p.Types != nil && p.Types.Name() == pkgName {
			if o, ok := p.Types.Scope().Lookup(name).(*types.TypeName); ok {
				found = o.Type()
			}
		}
	})
	return found
}

func (P *Program) lookupTypeName(pkgPath, name string) *types.TypeName {
	for _, p := range P.Pkgs {
		if p.PkgPath == pkgPath {
			if o, ok := p.Types.Scope().Lookup(name).(*types.TypeName); ok {
				return o
			}
		}
	}
	return nil
}

// staticTypeOf resolves the Go type of a simple spec expression (identifier / field chain)
// in the scope of fn's parameters, free variables and named locals.
func (P *Program) staticTypeOf(fn *ssa.Function, e *Expr) types.Type {
	switch e.Kind {
	case "ident":
		for _, p := range fn.Params {
			if p.Name() == e.Name {
				return p.Type()
			}
		}
		for _, fv := range fn.FreeVars {
			if fv.Name() == e.Name {
				return derefType(fv.Type())
			}
		}
		for _, b := range fn.Blocks {
			for _, in := range b.Instrs {
				if a, ok := in.(*ssa.Alloc); ok && a.Comment == e.Name {
					return derefType(a.Type())
				}
			}
		}
	case "sel":
		bt := P.staticTypeOf(fn, e.Args[0])
		if bt == nil {
			return nil
		}
		bt = derefType(bt)
		if st, ok := bt.Underlying().(*types.Struct); ok {
			for i := 0; i < st.NumFields(); i++ {
				if fieldIs(bt, st.Field(i), e.Name) {
					return st.Field(i).Type()
				}
			}
		}
	case "call":
		if e.Name == "old" && len(e.Args) == 1 {
			return P.staticTypeOf(fn, e.Args[0])
		}
	}
	return nil
}
