package main

// From a failed obligation to a replay file. Where a replay harness exists for the
// obligation's function, the solver's counterexample is rendered into an in-package Go test,
// injected with `go test -overlay` (nothing is written to the repository) and run against the
// real code with a property-level oracle.

import (
	"encoding/json"
	"fmt"
	"math/big"
	"os"
	"os/exec"
	"path/filepath"
	"regexp"
	"sort"
	"strings"
	"time"
)

func negPow(n uint) *big.Int { return new(big.Int).Neg(pow2(n)) }

// classify normalises a counterexample into a class name for known-finding identity.
func classify(P *Program, ob *Obligation) string {
	if ob == nil || ob.Result.Model == nil {
		return ""
	}
	for _, h := range replayHarnesses {
		if h.match(ob.Name) && h.class != nil {
			return h.class(P, ob)
		}
	}
	return ""
}

func writeReplay(P *Program, opt Options, path, name, reason string, ob *Obligation) string {
	var sb strings.Builder
	fmt.Fprintf(&sb, "property: %s\nobligation: %s\nreason: %s\n", opt.Prop, name, reason)
	suffix := " no-failing-input-found"
	if ob != nil {
		fmt.Fprintf(&sb, "kind: %s\nat: %s\nwhat: %s\npath: %s\nsolver: %s (%s)\n", ob.Kind, ob.Pos, ob.Descr, ob.Trail, ob.Result.Status, strings.Join(ob.Result.Tried, ", "))
		if ob.Result.Model == nil && ob.Kind == "static" && ob.Goal != nil && ob.Goal.IsFalse() {
			// a static obligation has no solver model; a schedule-level replay may still exist
			out, ok := runReplay(P, opt, ob)
			if out != "" {
				sb.WriteString("replay against the real code:\n" + out + "\n")
				if ok {
					suffix = ""
					sb.WriteString("replay verdict: the violation reproduces on the real code\n")
				} else {
					sb.WriteString("replay verdict: did not reproduce on this run\n")
				}
			}
		}
		if ob.Result.Model != nil {
			sb.WriteString("model (inputs):\n")
			var ks []string
			for k := range ob.Result.Model {
				ks = append(ks, k)
			}
			sort.Strings(ks)
			for _, k := range ks {
				if src, ok := ob.Inputs[k]; ok {
					fmt.Fprintf(&sb, "  %s = %s\n", src, ob.Result.Model[k])
				}
			}
			if cl := classify(P, ob); cl != "" {
				fmt.Fprintf(&sb, "class: %s\n", cl)
			}
			out, ok := runReplay(P, opt, ob)
			if out != "" {
				sb.WriteString("replay against the real code:\n" + out + "\n")
				if ok {
					suffix = ""
					sb.WriteString("replay verdict: the counterexample reproduces on the real code\n")
				} else {
					sb.WriteString("replay verdict: the counterexample did not reproduce (or no oracle applies)\n")
				}
			}
		}
		raw := ob.Result.Raw
		if len(raw) > 6000 {
			raw = raw[:6000] + "…"
		}
		sb.WriteString("solver output:\n" + raw + "\n")
	}
	os.WriteFile(path, []byte(sb.String()), 0o644)
	return suffix
}

type replayHarness struct {
	match  func(name string) bool
	pkgDir string // directory relative to the repository root
	render func(P *Program, ob *Obligation) (src string, ok bool)
	class  func(P *Program, ob *Obligation) string
	race   bool
}

var replayHarnesses []replayHarness

// runReplay renders and runs the replay harness for the obligation's function, if any.
// It returns the output and whether the counterexample reproduced on the real code.
func runReplay(P *Program, opt Options, ob *Obligation) (string, bool) {
	for _, h := range replayHarnesses {
		if !h.match(ob.Name) {
			continue
		}
		src, ok := h.render(P, ob)
		if !ok {
			return "replay harness could not map the model to inputs", false
		}
		return runOverlayTest(opt, h.pkgDir, src, h.race)
	}
	return "", false
}

// runOverlayTest: exit status 1 with "REPRODUCED" in the output means the oracle failed on
// the real code with the given inputs.
func runOverlayTest(opt Options, pkgDir, src string, race bool) (string, bool) {
	tmp, err := os.MkdirTemp(filepath.Join(opt.VerifDir, "out"), "replay-")
	if err != nil {
		return "cannot create scratch directory: " + err.Error(), false
	}
	defer os.RemoveAll(tmp)
	testFile := filepath.Join(tmp, "zz_gowp_replay_test.go")
	os.WriteFile(testFile, []byte(src), 0o644)
	target := filepath.Join(opt.Repo, pkgDir, "zz_gowp_replay_test.go")
	ov, _ := json.Marshal(map[string]interface{}{"Replace": map[string]string{target: testFile}})
	ovFile := filepath.Join(tmp, "overlay.json")
	os.WriteFile(ovFile, ov, 0o644)
	args := []string{"test", "-overlay", ovFile, "-vet=off", "-count=1", "-timeout", "60s", "-run", "TestGowpReplay", "-v"}
	if race {
		args = append(args, "-race")
	}
	args = append(args, "./"+pkgDir)
	cmd := exec.Command("go", args...)
	cmd.Dir = opt.Repo
	cmd.Env = append(os.Environ(), "GOFLAGS=-mod=mod", "GOPROXY=off", "GOSUMDB=off", "GOTOOLCHAIN=local")
	done := make(chan struct{})
	var out []byte
	go func() {
		out, _ = cmd.CombinedOutput()
		close(done)
	}()
	select {
	case <-done:
	case <-time.After(120 * time.Second):
		if cmd.Process != nil {
			cmd.Process.Kill()
		}
		<-done
	}
	s := string(out)
	if len(s) > 6000 {
		s = s[:6000] + "…"
	}
	text := "--- generated test ---\n" + src + "\n--- output ---\n" + s
	return text, strings.Contains(s, ": REPRODUCED") || (race && strings.Contains(s, "WARNING: DATA RACE"))
}

// ---------------------------------------------------------------------------
// model access

func modelInt(ob *Obligation, name string) (string, bool) {
	v, ok := ob.Result.Model[name]
	if !ok {
		return "", false
	}
	v = strings.TrimSpace(v)
	if regexp.MustCompile(`^-?[0-9]+$`).MatchString(v) {
		return v, true
	}
	return "", false
}

// sexpr parsing for datatype values in models
type sx struct {
	atom string
	list []*sx
}

func parseSx(s string) *sx {
	toks := regexp.MustCompile(`\(|\)|[^\s()]+`).FindAllString(s, -1)
	pos := 0
	var rec func() *sx
	rec = func() *sx {
		if pos >= len(toks) {
			return &sx{}
		}
		t := toks[pos]
		pos++
		if t == "(" {
			n := &sx{}
			for pos < len(toks) && toks[pos] != ")" {
				n.list = append(n.list, rec())
			}
			pos++
			return n
		}
		return &sx{atom: t}
	}
	return rec()
}

// expandLets substitutes let-bound names (z3 prints shared sub-terms with let).
func expandLets(n *sx, env map[string]*sx) *sx {
	if n.atom != "" {
		if v, ok := env[n.atom]; ok {
			return v
		}
		return n
	}
	if len(n.list) == 3 && n.list[0].atom == "let" {
		ne := map[string]*sx{}
		for k, v := range env {
			ne[k] = v
		}
		for _, b := range n.list[1].list {
			if len(b.list) == 2 {
				ne[b.list[0].atom] = expandLets(b.list[1], env)
			}
		}
		return expandLets(n.list[2], ne)
	}
	out := &sx{}
	for _, c := range n.list {
		out.list = append(out.list, expandLets(c, env))
	}
	return out
}

func parseSxFull(s string) *sx { return expandLets(parseSx(s), nil) }

func (n *sx) intVal() (string, bool) {
	if n.atom != "" {
		if regexp.MustCompile(`^[0-9]+$`).MatchString(n.atom) {
			return n.atom, true
		}
		return "", false
	}
	if len(n.list) == 2 && n.list[0].atom == "-" {
		if v, ok := n.list[1].intVal(); ok {
			return "-" + v, true
		}
	}
	return "", false
}

// structModel reads a datatype value (mk_S_x f1 f2 ...) into field name -> printed value.
func structModel(val string, dtName string) map[string]string {
	d, ok := theU.datatypes[dtName]
	if !ok {
		return nil
	}
	n := parseSxFull(val)
	if len(n.list) != len(d.Fields)+1 || n.list[0].atom != "mk_"+dtName {
		return nil
	}
	out := map[string]string{}
	for i, f := range d.Fields {
		el := n.list[i+1]
		name := strings.TrimPrefix(f, dtName+"_")
		if v, ok := el.intVal(); ok {
			out[name] = v
		} else if el.atom != "" {
			out[name] = el.atom
		}
	}
	return out
}

// arrayAt evaluates a model array value ((as const ..) d) / (store a i v) at an integer index.
func arrayAt(val string, idx string) (string, bool) {
	n := parseSxFull(val)
	for {
		if len(n.list) == 4 && n.list[0].atom == "store" {
			if iv, ok := n.list[2].intVal(); ok && iv == idx {
				return sxString(n.list[3]), true
			}
			n = n.list[1]
			continue
		}
		if len(n.list) == 2 && len(n.list[0].list) == 3 && n.list[0].list[0].atom == "as" {
			return sxString(n.list[1]), true
		}
		// z3 sometimes prints (lambda ((x Int)) body) or (_ as-array k): give up
		return "", false
	}
}

func sxString(n *sx) string {
	if v, ok := n.intVal(); ok {
		return v
	}
	if n.atom != "" {
		return n.atom
	}
	var parts []string
	for _, c := range n.list {
		parts = append(parts, sxString(c))
	}
	return "(" + strings.Join(parts, " ") + ")"
}

// heapField reads field `key` (e.g. F$bState$current) of object ref from the model's entry heap.
func heapField(ob *Obligation, key, ref string) (string, bool) {
	for _, suffix := range []string{"@0"} {
		if v, ok := ob.Result.Model[smtName(key)+suffix]; ok {
			return arrayAt(v, ref)
		}
	}
	return "", false
}
