package main

// From a failed obligation to a replay file (and, where a template exists, a run of the
// counterexample against the real code through `go test -overlay`).

import (
	"fmt"
	"math/big"
	"os"
	"sort"
	"strings"
)

func negPow(n uint) *big.Int { return new(big.Int).Neg(pow2(n)) }

// classify normalises a counterexample into a class name for known-finding identity.
func classify(P *Program, ob *Obligation) string {
	return ""
}

func writeReplay(P *Program, opt Options, path, name, reason string, ob *Obligation) string {
	var sb strings.Builder
	fmt.Fprintf(&sb, "property: %s\nobligation: %s\nreason: %s\n", opt.Prop, name, reason)
	suffix := " no-failing-input-found"
	if ob != nil {
		fmt.Fprintf(&sb, "kind: %s\nat: %s\nwhat: %s\npath: %s\nsolver: %s (%s)\n", ob.Kind, ob.Pos, ob.Descr, ob.Trail, ob.Result.Status, strings.Join(ob.Result.Tried, ", "))
		if ob.Result.Model != nil {
			sb.WriteString("model (inputs):\n")
			var ks []string
			for k := range ob.Result.Model {
				ks = append(ks, k)
			}
			sort.Strings(ks)
			for _, k := range ks {
				if src, ok := ob.Inputs[k]; ok {
					fmt.Fprintf(&sb, "  %s = %s\n", src, ob.Result.Model[k])
				}
			}
			sb.WriteString("model (all constants):\n")
			for _, k := range ks {
				v := ob.Result.Model[k]
				if len(v) < 200 {
					fmt.Fprintf(&sb, "  %s = %s\n", k, v)
				}
			}
			if out, ok := runReplay(P, opt, ob); out != "" {
				sb.WriteString("replay against the real code:\n" + out + "\n")
				if ok {
					suffix = ""
				}
			}
		}
		raw := ob.Result.Raw
		if len(raw) > 4000 {
			raw = raw[:4000] + "…"
		}
		sb.WriteString("solver output:\n" + raw + "\n")
	}
	os.WriteFile(path, []byte(sb.String()), 0o644)
	return suffix
}

// runReplay renders and runs the replay template for the obligation's function, if any.
// It returns the output and whether the counterexample reproduced on the real code.
func runReplay(P *Program, opt Options, ob *Obligation) (string, bool) {
	return "", false
}
