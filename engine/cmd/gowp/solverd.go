package main

// A small helper process that spawns the solvers: forking from the engine itself is slow
// once the whole program is loaded (hundreds of MB of heap), so the engine re-executes
// itself early as `gowp solverd` and sends it jobs over a pipe.

import (
	"bufio"
	"bytes"
	"context"
	"encoding/json"
	"io"
	"os"
	"os/exec"
	"sync"
	"time"
)

type spawnReq struct {
	ID       int      `json:"id"`
	Argv     []string `json:"argv"`
	TimeoutS int      `json:"timeout_s"`
}

type spawnResp struct {
	ID       int     `json:"id"`
	Out      string  `json:"out"`
	ElapsedS float64 `json:"elapsed_s"`
	TimedOut bool    `json:"timed_out"`
}

func solverdMain() {
	in := bufio.NewReaderSize(os.Stdin, 1<<20)
	var mu sync.Mutex
	enc := json.NewEncoder(os.Stdout)
	var wg sync.WaitGroup
	for {
		line, err := in.ReadBytes('\n')
		if len(line) > 0 {
			var rq spawnReq
			if json.Unmarshal(line, &rq) == nil {
				wg.Add(1)
				go func() {
					defer wg.Done()
					ctx, cancel := context.WithTimeout(context.Background(), time.Duration(rq.TimeoutS)*time.Second)
					defer cancel()
					cmd := exec.CommandContext(ctx, rq.Argv[0], rq.Argv[1:]...)
					var out bytes.Buffer
					cmd.Stdout = &out
					cmd.Stderr = &out
					start := time.Now()
					_ = cmd.Run()
					rs := spawnResp{ID: rq.ID, Out: out.String(), ElapsedS: time.Since(start).Seconds(), TimedOut: ctx.Err() != nil}
					mu.Lock()
					enc.Encode(rs)
					mu.Unlock()
				}()
			}
		}
		if err != nil {
			break
		}
	}
	wg.Wait()
}

type spawner struct {
	mu      sync.Mutex
	w       io.Writer
	pending map[int]chan spawnResp
	next    int
	ok      bool
}

var theSpawner *spawner

func startSpawner() {
	cmd := exec.Command(os.Args[0], "solverd")
	w, err1 := cmd.StdinPipe()
	r, err2 := cmd.StdoutPipe()
	cmd.Stderr = os.Stderr
	if err1 != nil || err2 != nil || cmd.Start() != nil {
		return
	}
	s := &spawner{w: w, pending: map[int]chan spawnResp{}, ok: true}
	theSpawner = s
	go func() {
		dec := json.NewDecoder(bufio.NewReaderSize(r, 1<<20))
		for {
			var rs spawnResp
			if err := dec.Decode(&rs); err != nil {
				s.mu.Lock()
				s.ok = false
				for _, ch := range s.pending {
					close(ch)
				}
				s.pending = map[int]chan spawnResp{}
				s.mu.Unlock()
				return
			}
			s.mu.Lock()
			ch := s.pending[rs.ID]
			delete(s.pending, rs.ID)
			s.mu.Unlock()
			if ch != nil {
				ch <- rs
			}
		}
	}()
}

// spawn runs argv with a timeout through the helper (or directly when it is unavailable).
func spawn(argv []string, timeoutS int) (out string, elapsed float64, timedOut bool) {
	s := theSpawner
	if s != nil {
		s.mu.Lock()
		if s.ok {
			s.next++
			id := s.next
			ch := make(chan spawnResp, 1)
			s.pending[id] = ch
			data, _ := json.Marshal(spawnReq{ID: id, Argv: argv, TimeoutS: timeoutS})
			_, err := s.w.Write(append(data, '\n'))
			s.mu.Unlock()
			if err == nil {
				if rs, ok := <-ch; ok {
					return rs.Out, rs.ElapsedS, rs.TimedOut
				}
			}
		} else {
			s.mu.Unlock()
		}
	}
	ctx, cancel := context.WithTimeout(context.Background(), time.Duration(timeoutS)*time.Second)
	defer cancel()
	cmd := exec.CommandContext(ctx, argv[0], argv[1:]...)
	var buf bytes.Buffer
	cmd.Stdout = &buf
	cmd.Stderr = &buf
	start := time.Now()
	_ = cmd.Run()
	return buf.String(), time.Since(start).Seconds(), ctx.Err() != nil
}
