package main

// Symbolic state and memory model of the executor.

import (
	"fmt"
	"go/types"

	"golang.org/x/tools/go/ssa"
)

type Val struct {
	T     *Term
	Tup   []Val
	Addr  *Addr
	Fn    *ssa.Function
	Binds []Val
}

const (
	rCell = iota
	rField
	rMem
	rElem
	rGlobal
)

type PathEl struct {
	Field    int        // >=0: struct field
	StructTy types.Type // struct type the field belongs to
	Index    *Term      // non-nil: array index
	ArrTy    types.Type
}

type Addr struct {
	Root int
	Cell ssa.Value  // rCell
	Key  string     // heap key (rField: F$S$f, rMem: M$T, rElem: E$T, rGlobal: G$name)
	Base *Term      // object reference (rField, rMem, rElem)
	Idx  *Term      // rElem: element index (absolute)
	Ty   types.Type // type of the content of the root location
	Path []PathEl
	SlOff, SlIdx *Term // rElem reached by indexing a slice: its offset and the index used
}

func (a *Addr) withPath(p PathEl) *Addr {
	b := *a
	b.Path = append(append([]PathEl{}, a.Path...), p)
	return &b
}

type deferred struct {
	call *ssa.CallCommon
	site ssa.Instruction
	args []Val
	fnv  Val
}

type State struct {
	cells     map[ssa.Value]*Term
	cellSeq   map[ssa.Value]int
	seq       int
	regs      map[ssa.Value]Val
	heap      map[string]*Term
	epoch     int
	ghost     map[string]*Term
	assume    []*Term
	defers    []deferred
	prev      *ssa.BasicBlock
	trail     []string
	variantAt map[*Loop]*Term
	inLoop    map[*Loop]bool
	inl       []*inlineFrame // calls of contract-less helpers being executed inline on this path
	results   []Val
	objOf     map[*ssa.Alloc]*Term // heap-class allocs: their reference
	bump      map[string]int       // per-key version for arrays havocked before first touch
	loopHeap  map[*Loop]map[string]*Term
	clos      map[string]Val // closure reference (term key) -> function and bindings
	invObjs   []invObj       // pointers whose type invariant was assumed on this path
	iterHead  map[*Loop]*State // snapshot at the loop head of the current iteration
	loopEntry map[*Loop]*State // snapshot at the first arrival at the loop (before havoc)
	counters  map[*Loop][]counterBound // inferred bounds of monotone loop counters (instr.go)
}

// counterBound: a loop counter that only moves one way keeps to one side of its entry value.
type counterBound struct {
	cell  *ssa.Alloc
	up    bool
	entry *Term
}

type invObj struct {
	v *Term
	t types.Type
}

func newState() *State {
	return &State{cells: map[ssa.Value]*Term{}, cellSeq: map[ssa.Value]int{}, regs: map[ssa.Value]Val{},
		heap: map[string]*Term{}, ghost: map[string]*Term{}, variantAt: map[*Loop]*Term{}, inLoop: map[*Loop]bool{},
		objOf: map[*ssa.Alloc]*Term{}, bump: map[string]int{}}
}

func (s *State) clone() *State {
	n := &State{cells: make(map[ssa.Value]*Term, len(s.cells)), cellSeq: make(map[ssa.Value]int, len(s.cellSeq)),
		regs: make(map[ssa.Value]Val, len(s.regs)), heap: make(map[string]*Term, len(s.heap)),
		ghost: make(map[string]*Term, len(s.ghost)), variantAt: make(map[*Loop]*Term, len(s.variantAt)),
		inLoop: make(map[*Loop]bool, len(s.inLoop)), objOf: make(map[*ssa.Alloc]*Term, len(s.objOf)),
		epoch: s.epoch, seq: s.seq, prev: s.prev, bump: make(map[string]int, len(s.bump))}
	for k, v := range s.bump {
		n.bump[k] = v
	}
	if s.clos != nil {
		n.clos = map[string]Val{}
		for k, v := range s.clos {
			n.clos[k] = v
		}
	}
	if s.counters != nil {
		n.counters = map[*Loop][]counterBound{}
		for k, v := range s.counters {
			n.counters[k] = v
		}
	}
	if s.loopHeap != nil {
		n.loopHeap = map[*Loop]map[string]*Term{}
		for k, v := range s.loopHeap {
			n.loopHeap[k] = v
		}
	}
	for k, v := range s.cells {
		n.cells[k] = v
	}
	for k, v := range s.cellSeq {
		n.cellSeq[k] = v
	}
	for k, v := range s.regs {
		n.regs[k] = v
	}
	for k, v := range s.heap {
		n.heap[k] = v
	}
	for k, v := range s.ghost {
		n.ghost[k] = v
	}
	for k, v := range s.variantAt {
		n.variantAt[k] = v
	}
	for k, v := range s.inLoop {
		n.inLoop[k] = v
	}
	n.inl = append([]*inlineFrame(nil), s.inl...)
	for k, v := range s.objOf {
		n.objOf[k] = v
	}
	n.invObjs = append([]invObj{}, s.invObjs...)
	if s.iterHead != nil {
		n.iterHead = map[*Loop]*State{}
		for k, v := range s.iterHead {
			n.iterHead[k] = v
		}
	}
	if s.loopEntry != nil {
		n.loopEntry = map[*Loop]*State{}
		for k, v := range s.loopEntry {
			n.loopEntry[k] = v
		}
	}
	n.assume = append([]*Term{}, s.assume...)
	n.defers = append([]deferred{}, s.defers...)
	n.trail = append([]string{}, s.trail...)
	n.results = s.results
	return n
}

func (s *State) add(fs ...*Term) {
	for _, f := range fs {
		if f == nil || f.IsTrue() {
			continue
		}
		s.assume = append(s.assume, f)
	}
}

// heapArr returns the current version of a heap array, creating the initial version of the
// current epoch lazily (same name in every state of the epoch: it is the same unknown array).
func (s *State) heapArr(key string, sort Sort) *Term {
	if t, ok := s.heap[key]; ok {
		return t
	}
	name := fmt.Sprintf("%s@%d", smtName(key), s.epoch)
	if b := s.bump[key]; b > 0 {
		name = fmt.Sprintf("%s_%d", name, b)
	}
	t := Var(name, sort)
	s.heap[key] = t
	return t
}

func smtName(k string) string {
	out := make([]rune, 0, len(k))
	for _, r := range k {
		switch r {
		case '#':
			out = append(out, 'g', '!')
		case '(', ')', ' ', '*', '[', ']', ',', '/', '.':
			out = append(out, '_')
		default:
			out = append(out, r)
		}
	}
	return string(out)
}

func (s *State) ghostInt(name string) *Term {
	if t, ok := s.ghost[name]; ok {
		return t
	}
	ep := s.epoch
	if len(name) >= 6 && name[:6] == "#call$" {
		ep = 0 // the activation's own call counters are not heap state
	}
	vn := fmt.Sprintf("%s@%d", smtName(name), ep)
	if b := s.bump["#spawnver"]; b > 0 && len(name) >= 6 && name[:6] == "#spawn" {
		vn = fmt.Sprintf("%s_%d", vn, b)
	}
	if b := s.bump[name]; b > 0 {
		vn = fmt.Sprintf("%s_k%d", vn, b)
	}
	t := Var(vn, SInt)
	s.ghost[name] = t
	return t
}

// heap keys -> array sorts
func heapSortField(st types.Type, idx int) Sort {
	f := st.Underlying().(*types.Struct).Field(idx)
	return ArrSort(SInt, sortOfStatic(f.Type()))
}
