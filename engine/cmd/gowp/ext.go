package main

// Assumed contracts of functions outside the module (standard library and third-party
// dependencies). Everything here is part of the trusted base and is reported as such.

import (
	"fmt"
	"go/types"
	"strings"

	"golang.org/x/tools/go/ssa"
)

const ghBuf = "#buf" // ghost: contents of a *bytes.Buffer as an abstract string
const ghRd = "#rd"   // ghost: remaining contents of a reader created by the library
const ghCancelled = "#cancelled" // ghost: a bar's cancel function has been called

func init() {
	heapSorts[ghBuf] = ArrSort(SInt, SStr)
	heapSorts[ghRd] = ArrSort(SInt, SStr)
	heapSorts[ghCancelled] = ArrSort(SInt, SBool)
}

func (x *Exec) rdSet(st *State, r, v *Term) {
	st.heap[ghRd] = Store(st.heapArr(ghRd, heapSorts[ghRd]), r, v)
}

// readerContent: contents of an io.Reader interface value: a *bytes.Buffer reads its ghost
// buffer, a reader made by strings.NewReader / io.MultiReader its ghost remaining contents.
func (x *Exec) readerContent(st *State, iface *Term) *Term {
	bufT := x.P.lookupNamedType("bytes", "Buffer")
	rd := Select(st.heapArr(ghRd, heapSorts[ghRd]), iface)
	if bufT == nil {
		return rd
	}
	tag := IntLit(int64(x.P.typeTag(types.NewPointer(bufT))))
	// a non-nil pointer in an interface is the reference itself (makeIface)
	return Ite(Eq(App("typeof", SInt, iface), tag), x.bufGetT(st, iface, types.NewPointer(bufT)), rd)
}

// externalMods: heap keys an external function may write (for mod-set inference).
func externalMods(callee *ssa.Function, c *ssa.CallCommon) []string {
	n := callee.String()
	switch {
	case strings.HasPrefix(n, "(*bytes.Buffer)."):
		switch callee.Name() {
		case "Len", "String", "Bytes", "Cap":
			return nil
		case "ReadFrom":
			return []string{ghBuf, ghRd}
		}
		return []string{ghBuf}
	case n == "container/heap.Push", n == "container/heap.Pop", n == "container/heap.Fix", n == "container/heap.Init", n == "container/heap.Remove":
		return []string{pqMemKey, pqElemKey, "F$Bar$index", ghInHeap, ghHord, ghHbound, ghHdirty}
	case n == "sort.Sort", n == "sort.Stable":
		return []string{modAll}
	case n == "io.Copy", n == "io.CopyN", n == "io.CopyBuffer":
		if len(c.Args) > 0 {
			if g, ok := c.Args[0].(*ssa.UnOp); ok {
				if gl, ok := g.X.(*ssa.Global); ok && gl.String() == "io.Discard" {
					return []string{ghRd}
				}
			}
		}
		return []string{ghBuf, ghRd}
	case strings.HasPrefix(n, "fmt.Fprint"):
		return []string{ghBuf}
	}
	return nil
}

func externalIfaceMods(c *ssa.CallCommon) ([]string, bool) {
	if !inModule(c.Method.Pkg()) {
		switch c.Method.Name() {
		case "Write", "WriteString", "ReadFrom", "WriteTo", "Read":
			return []string{ghBuf}, true
		}
		return nil, true
	}
	return nil, false
}

// bufKey: the object whose ghost contents a writer value denotes. Writing to a *cwriter.Writer
// writes its embedded *bytes.Buffer (promoted Write); every other writer is its own key.
func (x *Exec) bufKey(st *State, w *Term) *Term { return x.bufKeyT(st, w, nil) }

// bufKeyT uses the static type of the writer expression when it is known: only an interface
// value needs the dynamic test.
func (x *Exec) bufKeyT(st *State, w *Term, ty types.Type) *Term {
	wt := x.P.lookupTypeName(modulePath+"/cwriter", "Writer")
	if wt == nil {
		return w
	}
	if ty != nil {
		if _, isIface := ty.Underlying().(*types.Interface); !isIface {
			if pt, ok := ty.Underlying().(*types.Pointer); !ok || !types.Identical(pt.Elem(), wt.Type()) {
				return w // a concrete writer other than *cwriter.Writer is its own key
			}
		}
	}
	stt, ok := wt.Type().Underlying().(*types.Struct)
	if !ok {
		return w
	}
	for i := 0; i < stt.NumFields(); i++ {
		if stt.Field(i).Name() == "Buffer" {
			k := regHeap(fieldKey(wt.Type(), i), heapSortField(wt.Type(), i))
			if x.entry != nil {
				// the heap at entry holds no reference that did not exist at entry
				st.add(Le(Select(x.entry.heapArr(k, heapSorts[k]), w), x.entry.ghostInt("top")))
			}
			tag := IntLit(int64(x.P.typeTag(types.NewPointer(wt.Type()))))
			if ty != nil {
				if _, isIface := ty.Underlying().(*types.Interface); !isIface {
					return Select(st.heapArr(k, heapSorts[k]), w) // statically a *cwriter.Writer
				}
			}
			return Ite(Eq(App("typeof", SInt, w), tag), Select(st.heapArr(k, heapSorts[k]), w), w)
		}
	}
	return w
}

func (x *Exec) bufGet(st *State, b *Term) *Term { return x.bufGetT(st, b, nil) }

func (x *Exec) bufSet(st *State, b, v *Term) { x.bufSetT(st, b, nil, v) }

func (x *Exec) bufGetT(st *State, b *Term, ty types.Type) *Term {
	return Select(st.heapArr(ghBuf, heapSorts[ghBuf]), x.bufKeyT(st, b, ty))
}

func (x *Exec) bufSetT(st *State, b *Term, ty types.Type, v *Term) {
	st.heap[ghBuf] = Store(st.heapArr(ghBuf, heapSorts[ghBuf]), x.bufKeyT(st, b, ty), v)
}

func (x *Exec) errResult(st *State) *Term {
	e := x.freshVar("err", SInt)
	st.add(Ge(e, Zero))
	return e
}

// external applies the assumed contract of a known external function.
func (x *Exec) external(st *State, site ssa.Instruction, callee *ssa.Function, c *ssa.CallCommon, args []Val, res ssa.Value) bool {
	n := callee.String()
	x.extUsed[n] = true
	at := func(i int) *Term { return x.term(st, args[i], c.Args[i].Type()) }
	var bbT types.Type
	if bt := x.P.lookupNamedType("bytes", "Buffer"); bt != nil {
		bbT = types.NewPointer(bt)
	}
	switch n {
	case "golang.org/x/sys/unix.IoctlGetWinsize", "golang.org/x/sys/unix.IoctlGetTermios":
		// assumed: on success the result points to a structure filled in by the kernel
		rv := x.freshResult(st, callee.Signature, callee.Name())
		if len(rv.Tup) == 2 && rv.Tup[0].T != nil && rv.Tup[1].T != nil {
			st.add(Implies(Eq(rv.Tup[1].T, Zero), Gt(rv.Tup[0].T, Zero)))
		}
		x.setResult(st, res, rv)
		return true
	case "sort.Sort", "sort.Stable":
		// assumed: permutes the elements of the collection it is given (through the collection's
		// own Swap) and touches nothing else; for arrays of up to 3 elements the permutation is
		// spelled out, otherwise the elements are unknown afterwards
		mi, ok := c.Args[0].(*ssa.MakeInterface)
		if !ok {
			x.havocAllCount++
			x.havoc(st, map[string]bool{modAll: true})
			return true
		}
		pt, isPtr := mi.X.Type().Underlying().(*types.Pointer)
		if !isPtr {
			if _, isSl := mi.X.Type().Underlying().(*types.Slice); !isSl {
				return true // a value copy: sorting it is invisible to the caller
			}
		}
		var elem types.Type
		var base *Term
		n := int64(-1)
		if isPtr {
			if at, isArr := pt.Elem().Underlying().(*types.Array); isArr {
				elem, n = at.Elem(), at.Len()
				base = x.term(st, x.val(st, mi.X), mi.X.Type())
			}
		} else if slt, isSl := mi.X.Type().Underlying().(*types.Slice); isSl {
			elem = slt.Elem()
			base = sliceAcc(x.term(st, x.val(st, mi.X), mi.X.Type()), 0)
		}
		if elem == nil {
			x.havocAllCount++
			x.havoc(st, map[string]bool{modAll: true})
			return true
		}
		k := regHeap("E$"+sortNameOfType(elem), ArrSort(SInt, ArrSort(SInt, sortOfStatic(elem))))
		arr := st.heapArr(k, heapSorts[k])
		oldRow := Select(arr, base)
		newRow := x.freshVar("sorted", ArrSort(SInt, sortOfStatic(elem)))
		if n >= 0 && n <= 3 {
			var perms [][]int64
			switch n {
			case 0, 1:
				perms = [][]int64{{0}}
			case 2:
				perms = [][]int64{{0, 1}, {1, 0}}
			case 3:
				perms = [][]int64{{0, 1, 2}, {0, 2, 1}, {1, 0, 2}, {1, 2, 0}, {2, 0, 1}, {2, 1, 0}}
			}
			var alts []*Term
			for _, p := range perms {
				var cs []*Term
				for i := int64(0); i < n; i++ {
					cs = append(cs, Eq(Select(newRow, IntLit(i)), Select(oldRow, IntLit(p[i]))))
				}
				alts = append(alts, And(cs...))
			}
			if n > 0 {
				st.add(Or(alts...))
			}
		}
		st.heap[k] = Store(arr, base, newRow)
		return true
	case "math.Round":
		k := x.freshVar("round", SInt)
		st.add(Eq(k, App("iround", SInt, at(0))))
		x.setResult(st, res, Val{T: ToReal(k)})
		return true
	case "math.Abs":
		x.setResult(st, res, Val{T: App("absr", SReal, at(0))})
		return true
	case "math.Floor":
		x.setResult(st, res, Val{T: ToReal(App("to_int", SInt, at(0)))})
		return true
	case "github.com/mattn/go-runewidth.StringWidth":
		// dw is the width a terminal shows; runewidth agrees with it on text that carries no
		// zero-width control sequences (plain), and counts the bytes of such sequences otherwise
		s := at(0)
		x.strFacts(st, s)
		theU.DeclFunc("plain", SBool, SStr)
		r := x.freshVar("sw", SInt)
		st.add(Ge(r, Zero), Implies(App("plain", SBool, s), Eq(r, App("dw", SInt, s))))
		x.setResult(st, res, Val{T: r})
		return true
	case "github.com/mattn/go-runewidth.Truncate":
		s, w, tail := at(0), at(1), at(2)
		r := x.freshVar("trunc", SStr)
		x.strFacts(st, r)
		x.strFacts(st, s)
		// assumed: the result is s when it fits, otherwise a prefix plus the tail; it never exceeds w
		// columns provided the tail itself fits
		st.add(Implies(Le(App("dw", SInt, s), w), Eq(r, s)))
		st.add(Implies(Le(App("dw", SInt, tail), w), Le(App("dw", SInt, r), w)))
		st.add(Le(App("dw", SInt, r), Ite(Ge(App("dw", SInt, s), App("dw", SInt, tail)), App("dw", SInt, s), App("dw", SInt, tail))))
		x.setResult(st, res, Val{T: r})
		return true
	case "github.com/mattn/go-runewidth.FillLeft", "github.com/mattn/go-runewidth.FillRight":
		s, w := at(0), at(1)
		r := x.freshVar("fill", SStr)
		x.strFacts(st, r)
		x.strFacts(st, s)
		ds := App("dw", SInt, s)
		st.add(Eq(App("dw", SInt, r), Ite(Ge(ds, w), ds, w)))
		st.add(Implies(Ge(ds, w), Eq(r, s)))
		x.setResult(st, res, Val{T: r})
		return true
	case "github.com/acarl005/stripansi.Strip":
		s := at(0)
		r := x.freshVar("strip", SStr)
		x.strFacts(st, r)
		x.strFacts(st, s)
		st.add(Le(App("dw", SInt, r), App("dw", SInt, s)), Le(App("slen", SInt, r), App("slen", SInt, s)))
		x.setResult(st, res, Val{T: r})
		return true
	case "strings.Repeat":
		s, cnt := at(0), at(1)
		x.oblige(st, "neg", fmt.Sprintf("#%d", x.ordinal("neg", site)), Ge(cnt, Zero), site.Pos(), "strings.Repeat count is not negative")
		theU.DeclFunc("srepeat", SStr, SStr, SInt)
		r := App("srepeat", SStr, s, cnt)
		x.strFacts(st, s)
		st.add(Eq(App("dw", SInt, r), Mul(App("dw", SInt, s), cnt)), Eq(App("slen", SInt, r), Mul(App("slen", SInt, s), cnt)))
		st.add(Eq(Eq(App("slen", SInt, r), Zero), Eq(r, strEmpty)))
		x.setResult(st, res, Val{T: r})
		return true
	case "(*bytes.Buffer).WriteString", "(*bytes.Buffer).Write":
		b, s := at(0), at(1)
		x.bufSetT(st, b, bbT, x.concat(st, x.bufGetT(st, b, bbT), s))
		x.setResult(st, res, Val{Tup: []Val{{T: x.slenOf(st, s)}, {T: Zero}}})
		return true
	case "(*bytes.Buffer).WriteByte":
		b := at(0)
		c1 := x.freshVar("byte", SStr)
		st.add(Eq(App("slen", SInt, c1), One), Ge(App("dw", SInt, c1), Zero), Le(App("dw", SInt, c1), One))
		x.bufSetT(st, b, bbT, x.concat(st, x.bufGetT(st, b, bbT), c1))
		x.setResult(st, res, Val{T: Zero})
		return true
	case "(*bytes.Buffer).ReadBytes", "(*bytes.Buffer).ReadString":
		// assumed: the unread contents split into the returned line and the rest; without an
		// error the line is non-empty (it ends with the delimiter); with an error (io.EOF)
		// everything that was left has been returned and the buffer is empty
		old := x.bufGetT(st, at(0), bbT)
		line := x.freshVar("line", SStr)
		rest := x.freshVar("rest", SStr)
		x.strFacts(st, line)
		x.strFacts(st, rest)
		errv := x.freshVar("rberr", SInt)
		st.add(Ge(errv, Zero))
		st.add(Eq(x.slenOf(st, old), Add(x.slenOf(st, line), x.slenOf(st, rest))))
		st.add(Eq(App("dw", SInt, old), Add(App("dw", SInt, line), App("dw", SInt, rest))))
		st.add(Implies(Eq(errv, Zero), Ge(x.slenOf(st, line), One)))
		theU.DeclFunc("endswith", SBool, SStr, SInt)
		st.add(Implies(Eq(errv, Zero), App("endswith", SBool, line, at(1)))) // a line returned without an error ends with the delimiter
		st.add(Implies(Neq(errv, Zero), Eq(x.slenOf(st, rest), Zero)))
		x.bufSetT(st, at(0), bbT, rest)
		x.setResult(st, res, Val{Tup: []Val{{T: line}, {T: errv}}})
		return true
	case "(*bytes.Buffer).Reset":
		x.bufSetT(st, at(0), bbT, strEmpty)
		return true
	case "(*bytes.Buffer).Len":
		x.setResult(st, res, Val{T: x.slenOf(st, x.bufGetT(st, at(0), bbT))})
		return true
	case "(*bytes.Buffer).String", "(*bytes.Buffer).Bytes":
		x.setResult(st, res, Val{T: x.bufGetT(st, at(0), bbT)})
		return true
	case "bytes.NewBuffer":
		r := x.newRef(st, "buffer")
		x.bufSetT(st, r, bbT, at(0))
		x.setResult(st, res, Val{T: r})
		return true
	case "(*bytes.Buffer).ReadFrom":
		// reads the reader to the end: on success the buffer gains exactly the reader's
		// (ghost) contents and the reader is left empty
		b, r := at(0), at(1)
		src := x.readerContent(st, r)
		add := x.freshVar("readfrom", SStr)
		x.strFacts(st, add)
		e := x.errResult(st)
		st.add(Implies(Eq(e, Zero), Eq(add, src)))
		x.bufSetT(st, b, bbT, x.concat(st, x.bufGetT(st, b, bbT), add))
		x.rdSet(st, r, Ite(Eq(e, Zero), strEmpty, x.freshVar("rdrest", SStr)))
		nn := x.freshVar("n", SInt)
		st.add(Ge(nn, Zero))
		x.setResult(st, res, Val{Tup: []Val{{T: nn}, {T: e}}})
		return true
	case "(*bytes.Buffer).WriteTo":
		// drains the buffer into w: on success w gains exactly the buffer's contents
		b, w := at(0), at(1)
		content := x.bufGetT(st, b, bbT)
		nn := x.freshVar("n", SInt)
		st.add(Ge(nn, Zero), Le(nn, x.slenOf(st, content)))
		rest := x.freshVar("rest", SStr)
		x.strFacts(st, rest)
		e := x.errResult(st)
		st.add(Implies(Eq(e, Zero), Eq(rest, strEmpty)))
		moved := x.freshVar("moved", SStr)
		x.strFacts(st, moved)
		st.add(Implies(Eq(e, Zero), Eq(moved, content)))
		x.bufSetT(st, b, bbT, rest)
		x.bufSetT(st, w, c.Args[1].Type(), x.concat(st, x.bufGetT(st, w, c.Args[1].Type()), moved))
		x.setResult(st, res, Val{Tup: []Val{{T: nn}, {T: e}}})
		return true
	case "strconv.AppendInt":
		theU.DeclFunc("itoa", SStr, SInt)
		x.setResult(st, res, Val{T: x.concat(st, at(0), App("itoa", SStr, at(1)))})
		return true
	case "io.WriteString":
		x.writeModel(st, at(0), at(1), res)
		return true
	case "strings.NewReader", "bytes.NewReader":
		r := x.newRef(st, "reader")
		// dynamic type = the constructor's result type (*strings.Reader / *bytes.Reader)
		st.add(Eq(App("typeof", SInt, r), IntLit(int64(x.P.typeTag(callee.Signature.Results().At(0).Type())))))
		x.rdSet(st, r, at(0))
		x.setResult(st, res, Val{T: r})
		return true
	case "io.MultiReader":
		// the contents are the concatenation of the readers' contents (when the argument slice
		// has a literal length, as in every call of the library)
		r := x.newRef(st, "multireader")
		st.add(Eq(App("typeof", SInt, r), IntLit(int64(x.P.tagByName("*io.multiReader")))))
		sl := at(0)
		var total *Term = strEmpty
		if n, ok := sliceAcc(sl, 2).IntVal(); ok && n.IsInt64() && n.Int64() <= 8 {
			ek := x.elemKey(c.Args[0].Type().Underlying().(*types.Slice).Elem())
			arr := Select(st.heapArr(ek, heapSorts[ek]), sliceAcc(sl, 0))
			for i := int64(0); i < n.Int64(); i++ {
				total = x.concat(st, total, x.readerContent(st, Select(arr, Add(sliceAcc(sl, 1), IntLit(i)))))
			}
		} else {
			total = x.freshVar("multi", SStr)
			x.strFacts(st, total)
		}
		x.rdSet(st, r, total)
		x.setResult(st, res, Val{T: r})
		return true
	case "io.NopCloser":
		// assumed (go >= 1.20): NopCloser forwards WriterTo when the reader has it
		inner := at(0)
		r := x.freshVar("nopcloser", SInt)
		st.add(Gt(r, Zero))
		theU.DeclFunc("impl!io_WriterTo", SBool, SInt)
		st.add(Eq(App("impl!io_WriterTo", SBool, App("typeof", SInt, r)), App("impl!io_WriterTo", SBool, App("typeof", SInt, inner))))
		st.add(Neq(App("typeof", SInt, r), Zero))
		x.setResult(st, res, Val{T: r})
		return true
	case "context.WithCancel":
		ctx := x.newRef(st, "ctx")
		cancel := x.newRef(st, "cancel")
		x.setResult(st, res, Val{Tup: []Val{{T: ctx}, {T: cancel}}})
		return true
	case "time.NewTicker", "time.NewTimer", "github.com/VividCortex/ewma.NewMovingAverage":
		r := x.newRef(st, "obj")
		x.setResult(st, res, Val{T: r})
		return true
	case "context.Background":
		r := x.freshVar("ctxbg", SInt)
		st.add(Gt(r, Zero))
		x.setResult(st, res, Val{T: r})
		return true
	case "container/heap.Push", "container/heap.Pop", "container/heap.Fix":
		return x.heapModel(st, site, callee, c, args, res)
	case "time.Now":
		x.setResult(st, res, Val{T: x.freshVar("now", sortOfStatic(callee.Signature.Results().At(0).Type()))})
		return true
	case "(*os.File).Fd":
		// assumed: the descriptor of an open file, a small non-negative number (Fd of a closed
		// file is ^uintptr(0), which the conversion to int turns into -1)
		r := x.freshVar("fd", SInt)
		st.add(Ge(r, Zero), Le(r, BigLit(pow2(31))))
		x.setResult(st, res, Val{T: r})
		return true
	case "time.Since", "(time.Time).Sub":
		r := x.freshVar("dur", SInt)
		st.add(rangeFacts(r, types.Typ[types.Int64])...)
		if n == "time.Since" {
			// documented domain: the start time lies strictly in the past
			st.add(Gt(r, Zero))
		}
		x.setResult(st, res, Val{T: r})
		return true
	case "(time.Duration).Seconds", "(time.Duration).Minutes", "(time.Duration).Hours":
		d := at(0)
		div := map[string]string{"Seconds": "1000000000", "Minutes": "60000000000", "Hours": "3600000000000"}[callee.Name()]
		exact := RDiv(ToReal(d), RealLit(div))
		r := x.freshVar("fdur", SReal)
		u := RealLit("1/4503599627370496")
		st.add(Le(App("absr", SReal, Sub(r, exact)), Mul(App("absr", SReal, exact), u)))
		st.add(Implies(Ge(d, Zero), Ge(r, RealLit("0"))), Implies(Gt(d, Zero), Gt(r, RealLit("0"))), Implies(Eq(d, Zero), Eq(r, RealLit("0"))))
		x.setResult(st, res, Val{T: r})
		return true
	case "(time.Duration).Round", "(time.Duration).Truncate":
		d, m := at(0), at(1)
		r := x.freshVar("dround", SInt)
		st.add(rangeFacts(r, types.Typ[types.Int64])...)
		if callee.Name() == "Truncate" {
			st.add(Implies(Le(m, Zero), Eq(r, d)))
			st.add(Implies(And(Gt(m, Zero), Ge(d, Zero)), And(Le(r, d), Gt(r, Sub(d, m)), Eq(App("mod", SInt, r, m), Zero))))
		} else {
			st.add(Implies(Le(m, Zero), Eq(r, d)))
			st.add(Implies(And(Gt(m, Zero), Ge(d, Zero), Le(d, BigLit(pow2(62)))), And(Le(Mul(IntLit(2), App("absi", SInt, Sub(r, d))), m), Eq(App("mod", SInt, r, m), Zero), Ge(r, Zero))))
		}
		x.setResult(st, res, Val{T: r})
		return true
	}
	switch {
	case strings.HasPrefix(n, "fmt.Fprint"):
		w := at(0)
		if x.full {
			// a nil io.Writer makes fmt call a method on a nil interface: a panic in the caller's goroutine
			x.oblige(st, "nil", fmt.Sprintf("#%d", x.ordinal("nil", site)), Neq(w, Zero), site.Pos(), "non-nil writer handed to "+n)
		}
		nn := x.freshVar("n", SInt)
		st.add(Ge(nn, Zero))
		x.setResult(st, res, Val{Tup: []Val{{T: nn}, {T: x.errResult(st)}}})
		x.havoc(st, map[string]bool{ghBuf: true})
		return true
	case n == "fmt.Sprintf" || n == "fmt.Sprint" || n == "fmt.Sprintln" || strings.HasPrefix(n, "strconv.Format") || strings.HasPrefix(n, "strconv.Append") || n == "strconv.Itoa":
		r := x.freshVar("fmt", SStr)
		x.strFacts(st, r)
		x.setResult(st, res, Val{T: r})
		return true
	case strings.HasPrefix(n, "(*sync.WaitGroup).") || strings.HasPrefix(n, "(*sync.Mutex).") || strings.HasPrefix(n, "(*sync.RWMutex)."):
		return true
	case n == "io.Copy":
		nn := x.freshVar("n", SInt)
		st.add(Ge(nn, Zero))
		x.setResult(st, res, Val{Tup: []Val{{T: nn}, {T: x.errResult(st)}}})
		if g, ok := c.Args[0].(*ssa.UnOp); ok {
			if gl, ok := g.X.(*ssa.Global); ok && gl.String() == "io.Discard" {
				// draining a reader into io.Discard: the reader ends empty, nothing else changes
				x.rdSet(st, at(1), strEmpty)
				return true
			}
		}
		x.havoc(st, map[string]bool{ghBuf: true, ghRd: true})
		return true
	}
	delete(x.extUsed, n)
	return false
}

// externalIface: assumed contracts for calls through interfaces declared outside the module.
func (x *Exec) externalIface(st *State, site ssa.Instruction, c *ssa.CallCommon, recv Val, args []Val, res ssa.Value) bool {
	if inModule(c.Method.Pkg()) {
		return false
	}
	name := ""
	if c.Method.Pkg() != nil {
		name = c.Method.Pkg().Path() + "."
	}
	recvT := types.Unalias(c.Value.Type())
	if nt, ok := recvT.(*types.Named); ok {
		name += nt.Obj().Name() + "."
	}
	name += c.Method.Name()
	switch name {
	case "context.Context.Done":
		// one channel per context (a function of the context value)
		theU.DeclFunc("ctxdone", SInt, SInt)
		r := App("ctxdone", SInt, x.term(st, recv, c.Value.Type()))
		st.add(Gt(r, Zero))
		theU.DeclFunc("isext", SBool, SInt)
		st.add(App("isext", SBool, r)) // a channel owned by package context
		theU.DeclFunc("chtype", SInt, SInt)
		st.add(Eq(App("chtype", SInt, r), IntLit(int64(x.P.typeTag(types.NewChan(types.SendRecv, types.NewStruct(nil, nil)))))))
		x.setResult(st, res, Val{T: r})
		x.extUsed["iface "+name] = true
		return true
	case "io.Writer.Write", "io.WriteCloser.Write", "io.StringWriter.WriteString":
		w := x.term(st, recv, c.Value.Type())
		p := x.term(st, args[0], c.Args[0].Type())
		x.writeModel(st, w, p, res)
		x.extUsed["iface "+name] = true
		return true
	case "error.Error":
		r := x.freshVar("errstr", SStr)
		x.strFacts(st, r)
		x.setResult(st, res, Val{T: r})
		return true
	}
	return false
}

// heapModel: assumed contract of container/heap on a *priorityQueue (the only heap.Interface
// in the module), parametric in the interface methods whose own contracts are verified
// (Swap keeps index fields consistent, Push appends and sets the index, Pop removes the last
// element and sets its index to -1). Ghost state of the model:
//
//	inheap(b)   membership of a bar in the queue
//	hord        the heap order holds (every Push/Fix/Pop keeps it; a direct write of a bar's
//	            priority clears it; it holds again when the queue is empty)
//	hbound      when hord: an upper bound of the priorities in the queue (the last popped one)
//
// Push: the queue gains exactly x. Pop: it loses exactly the returned element, which was a
// member; when hord its priority is the largest, i.e. >= every remaining one. Fix(i) with the
// single out-of-place element at i restores hord.
// memory regions of the priority queue: the cell holding the slice (reached through
// *priorityQueue) and the element arrays of []*Bar
const (
	pqMemKey  = "M$mpb_priorityQueue"
	pqElemKey = "E$Pmpb_Bar"
)

const (
	ghInHeap = "#inheap"
	ghHord   = "#hord"
	ghHbound = "#hbound"
	ghHdirty = "#hdirty"
)

func init() {
	heapSorts[ghInHeap] = ArrSort(SInt, SBool)
}

func (st *State) ghostBool(name string) *Term {
	if t, ok := st.ghost[name]; ok {
		return t
	}
	vn := fmt.Sprintf("%s@%d", smtName(name), st.epoch)
	if b := st.bump[name]; b > 0 {
		vn = fmt.Sprintf("%s_k%d", vn, b)
	}
	t := Var(vn, SBool)
	st.ghost[name] = t
	return t
}

// pqWF: every element of the queue is a non-nil member whose index field is its position.
func (x *Exec) pqWF(st *State, sl *Term) *Term {
	ek := regHeap(pqElemKey, ArrSort(SInt, ArrSort(SInt, SInt)))
	idxKey := regHeap("F$Bar$index", ArrSort(SInt, SInt))
	bv := Var("bv!q", SInt)
	inner := Select(st.heapArr(ek, heapSorts[ek]), sliceAcc(sl, 0))
	el := sgetTerm(st, inner, sliceAcc(sl, 1), bv)
	body := And(Neq(el, Zero), Eq(Select(st.heapArr(idxKey, heapSorts[idxKey]), el), bv), Select(st.heapArr(ghInHeap, heapSorts[ghInHeap]), el))
	fwd := Forall([]*Term{bv}, Implies(And(Le(Zero, bv), Lt(bv, sliceAcc(sl, 2))), body))
	// converse: a member's index field is a valid position holding that very member
	rv := Var("bv!r", SInt)
	ix := Select(st.heapArr(idxKey, heapSorts[idxKey]), rv)
	member := Select(st.heapArr(ghInHeap, heapSorts[ghInHeap]), rv)
	back := Forall([]*Term{rv}, Implies(member, And(Le(Zero, ix), Lt(ix, sliceAcc(sl, 2)), Eq(Select(inner, Add(sliceAcc(sl, 1), ix)), rv))))
	return And(fwd, back)
}

func (x *Exec) heapModel(st *State, site ssa.Instruction, callee *ssa.Function, c *ssa.CallCommon, args []Val, res ssa.Value) bool {
	h := x.term(st, args[0], c.Args[0].Type())
	theU.DeclFunc("unbox!Int", SInt, SInt)
	pq := App("unbox!Int", SInt, h) // the *priorityQueue inside the heap.Interface value
	mk := regHeap(pqMemKey, ArrSort(SInt, Sort(sliceDT)))
	cur := Select(st.heapArr(mk, heapSorts[mk]), pq)
	oldLen := sliceAcc(cur, 2)
	ek := regHeap(pqElemKey, ArrSort(SInt, ArrSort(SInt, SInt)))
	idxKey := regHeap("F$Bar$index", ArrSort(SInt, SInt))
	prioKey := regHeap("F$Bar$priority", ArrSort(SInt, SInt))
	wfBefore := x.pqWF(st, cur)
	inheap0 := st.heapArr(ghInHeap, heapSorts[ghInHeap])
	hord0 := st.ghostBool(ghHord)
	hbound0 := st.ghostInt(ghHbound)
	nv := x.freshVar("pq", Sort(sliceDT))
	st.add(rangeFacts(nv, types.NewSlice(types.Typ[types.Int]))...)
	x.allocFactsLoose(st, sliceAcc(nv, 0), types.NewPointer(types.Typ[types.Int]))
	barT := x.P.lookupTypeName(modulePath, "Bar")
	var pt types.Type
	if barT != nil {
		pt = types.NewPointer(barT.Type())
	}
	prio := func(b *Term) *Term { return Select(st.heapArr(prioKey, heapSorts[prioKey]), b) }
	switch callee.Name() {
	case "Push":
		xv := x.term(st, args[1], c.Args[1].Type())
		bar := xv
		if pt != nil {
			x.oblige(st, "pre", fmt.Sprintf("#%d:heap.Push:bar", x.ordinal("pre", site)), And(x.hasType(st, xv, pt), Neq(x.unbox(xv, pt), Zero)), site.Pos(),
				"heap.Push receives a non-nil *Bar (precondition of priorityQueue.Push)")
			bar = x.unbox(xv, pt)
		}
		x.oblige(st, "pre", fmt.Sprintf("#%d:heap.Push:fresh", x.ordinal("pre", site)), Not(Select(inheap0, bar)), site.Pos(),
			"a bar handed to heap.Push is not already in the queue (never twice)")
		x.havoc(st, map[string]bool{ek: true, idxKey: true})
		st.add(Eq(sliceAcc(nv, 2), Add(oldLen, One)))
		st.heap[mk] = Store(st.heapArr(mk, heapSorts[mk]), pq, nv)
		st.heap[ghInHeap] = Store(inheap0, bar, True)
		st.add(Implies(wfBefore, x.pqWF(st, nv)))
		hb := x.freshVar("hbound", SInt)
		st.add(Implies(hord0, And(Ge(hb, hbound0), Ge(hb, prio(bar)))))
		st.ghost[ghHbound] = hb
		// order is kept when it held; an empty queue is trivially ordered
		ho := x.freshVar("hord", SBool)
		st.add(Implies(Or(hord0, Eq(oldLen, Zero)), ho))
		st.add(Implies(Eq(oldLen, Zero), Eq(hb, prio(bar))))
		st.ghost[ghHord] = ho
	case "Pop":
		x.oblige(st, "pre", fmt.Sprintf("#%d:heap.Pop:nonempty", x.ordinal("pre", site)), Gt(oldLen, Zero), site.Pos(), "heap.Pop on a non-empty heap")
		x.havoc(st, map[string]bool{ek: true, idxKey: true})
		st.add(Eq(sliceAcc(nv, 2), Sub(oldLen, One)))
		st.heap[mk] = Store(st.heapArr(mk, heapSorts[mk]), pq, nv)
		r := x.freshVar("popped", SInt)
		st.add(Gt(r, Zero))
		bar := r
		if pt != nil {
			tag := IntLit(int64(x.P.typeTag(pt)))
			st.add(Eq(App("typeof", SInt, r), tag))
			bar = x.unbox(r, pt)
			st.add(Implies(wfBefore, Gt(bar, Zero)))
		}
		st.add(Implies(wfBefore, Select(inheap0, bar)))
		st.heap[ghInHeap] = Store(inheap0, bar, False)
		st.add(Implies(wfBefore, Eq(Select(st.heapArr(idxKey, heapSorts[idxKey]), bar), IntLit(-1))))
		st.add(Implies(wfBefore, x.pqWF(st, nv)))
		// ordered: the popped priority is the largest; it bounds what remains
		st.add(Implies(hord0, Le(prio(bar), hbound0)))
		hb := x.freshVar("hbound", SInt)
		st.add(Implies(hord0, Eq(hb, prio(bar))))
		st.ghost[ghHbound] = hb
		ho := x.freshVar("hord", SBool)
		st.add(Implies(Or(hord0, Eq(oldLen, One)), ho))
		st.ghost[ghHord] = ho
		x.setResult(st, res, Val{T: r})
	case "Fix":
		i := x.term(st, args[1], c.Args[1].Type())
		// container/heap.Fix(h, i) reaches Less(i, parent): i must be a valid index (i == 0 is tolerated on an empty heap)
		x.oblige(st, "pre", fmt.Sprintf("#%d:heap.Fix:index", x.ordinal("pre", site)), And(Ge(i, Zero), Or(Lt(i, oldLen), Eq(i, Zero))), site.Pos(), "heap.Fix index within the heap")
		dirtyEl := st.ghostInt(ghHdirty)
		inner := Select(st.heapArr(ek, heapSorts[ek]), sliceAcc(cur, 0))
		elAtI := Select(inner, Add(sliceAcc(cur, 1), i))
		x.havoc(st, map[string]bool{ek: true, idxKey: true})
		st.add(Eq(sliceAcc(nv, 2), oldLen))
		st.heap[mk] = Store(st.heapArr(mk, heapSorts[mk]), pq, nv)
		st.add(Implies(wfBefore, x.pqWF(st, nv)))
		ho := x.freshVar("hord", SBool)
		st.add(Implies(Or(hord0, Eq(dirtyEl, elAtI)), ho))
		st.ghost[ghHord] = ho
		hb := x.freshVar("hbound", SInt)
		st.add(Implies(ho, And(Ge(hb, hbound0), Ge(hb, prio(elAtI)))))
		st.ghost[ghHbound] = hb
	}
	return true
}

// writeModel: assumed contract of Write / WriteString on an io.Writer value w with ghost
// contents written(w): on success exactly p is appended; on failure some part of it.
func (x *Exec) writeModel(st *State, w, p *Term, res ssa.Value) {
	n := x.freshVar("n", SInt)
	e := x.errResult(st)
	app := x.freshVar("appended", SStr)
	x.strFacts(st, app)
	x.strFacts(st, p)
	st.add(Ge(n, Zero), Le(n, App("slen", SInt, p)))
	st.add(Implies(Eq(e, Zero), And(Eq(n, App("slen", SInt, p)), Eq(app, p))))
	st.add(Le(App("dw", SInt, app), App("dw", SInt, p)))
	x.bufSet(st, w, x.concat(st, x.bufGet(st, w), app))
	x.setResult(st, res, Val{Tup: []Val{{T: n}, {T: e}}})
}
