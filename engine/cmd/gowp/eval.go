package main

// Evaluation of contract expressions in a symbolic state.

import (
	"sort"
	"fmt"
	"go/constant"
	"go/types"
	"math/big"
	"strconv"
	"strings"

	"golang.org/x/tools/go/ssa"
)

type specBinding struct {
	V  Val
	Ty types.Type
}

type SV struct { // spec value
	T  *Term
	Ty types.Type // may be nil for pure spec values
}

type Env struct {
	x     *Exec
	st    *State
	old   *State
	fn    *ssa.Function
	binds map[string]specBinding
	cells bool // resolve locals from the state's cells (verifying fn itself)
	mode  string
	err   error
	pkg   *types.Package
	scope string // non-empty: reading a callee's contract at a call site; its call ghosts are its own
	isOld bool
	underBinder int // > 0 while evaluating the body of a quantifier
	cur   *Env // the environment of the current state (target of now(e) inside old/iter/entry/at)
	oldBinds map[string]specBinding // bindings to use inside old() (captured variables of a closure callee)
}

// ghostKey scopes the per-activation call ghosts (called/calledWith/returned count the direct
// calls of the function whose contract is being read).
func (env *Env) ghostKey(k string) string {
	if env.scope == "" {
		return k
	}
	if env.isOld {
		return env.scope + "$old" + k
	}
	return env.scope + k
}

func (x *Exec) evalSpec(st *State, e *Expr, mode string) (*Term, bool) {
	return x.evalSpecWith(st, e, mode, nil)
}

func (x *Exec) evalSpecWith(st *State, e *Expr, mode string, extra map[string]specBinding) (*Term, bool) {
	env := &Env{x: x, st: st, old: x.entry, fn: x.fn, binds: map[string]specBinding{}, cells: true, mode: mode, pkg: fnPkg(x.fn)}
	if mode == "pre" || mode == "post" {
		for n, v := range x.params {
			env.binds[n] = specBinding{v, x.paramType(n)}
		}
	}
	if mode == "post" {
		env.bindResults(x.fn, st.results)
	}
	for k, v := range extra {
		env.binds[k] = v
	}
	sv := env.eval(e)
	if env.err != nil {
		x.specError(e, env.err)
		return nil, false
	}
	if sv.T.Sort != SBool && (mode != "inv" || true) {
		return sv.T, true
	}
	return sv.T, true
}

func (x *Exec) specError(e *Expr, err error) {
	x.unsupported(fmt.Sprintf("contract expression %s: %v", e, err))
	x.specErrs = append(x.specErrs, fmt.Sprintf("%s: %v", e, err))
}

func (x *Exec) paramType(name string) types.Type {
	for _, p := range x.fn.Params {
		if p.Name() == name {
			return p.Type()
		}
	}
	return nil
}

func (env *Env) bindResults(fn *ssa.Function, results []Val) {
	res := fn.Signature.Results()
	for i := 0; i < res.Len() && i < len(results); i++ {
		b := specBinding{results[i], res.At(i).Type()}
		env.binds[fmt.Sprintf("result%d", i)] = b
		if i == 0 {
			env.binds["result"] = b
		}
		if n := res.At(i).Name(); n != "" && n != "_" {
			if _, taken := env.binds[n]; !taken {
				env.binds[n] = b
			}
		}
	}
}

func (env *Env) fail(format string, args ...interface{}) SV {
	if env.err == nil {
		env.err = fmt.Errorf(format, args...)
	}
	return SV{T: True}
}

func (env *Env) eval(e *Expr) SV {
	if env.err != nil {
		return SV{T: True}
	}
	switch e.Kind {
	case "int":
		b, ok := new(big.Int).SetString(e.Lit, 10)
		if !ok {
			return env.fail("bad integer %s", e.Lit)
		}
		return SV{T: BigLit(b)}
	case "real":
		return SV{T: RealLit(ratString(e.Lit))}
	case "bool":
		return SV{T: BoolLit(e.Lit == "true"), Ty: types.Typ[types.Bool]}
	case "str":
		return SV{T: env.x.strConst(e.Lit), Ty: types.Typ[types.String]}
	case "ident":
		return env.ident(e.Name)
	case "unary":
		a := env.eval(e.Args[0])
		if a.T == nil {
			// about an unknown call record (a callee's own, or no such call on this path)
			if e.Name == "!" {
				return SV{T: env.x.freshVar("norecord", SBool), Ty: types.Typ[types.Bool]}
			}
			return SV{T: nil, Ty: nil}
		}
		if e.Name == "!" {
			return SV{T: Not(a.T), Ty: a.Ty}
		}
		return SV{T: Neg(a.T), Ty: a.Ty}
	case "binary":
		return env.binary(e)
	case "sel":
		return env.sel(e)
	case "index":
		return env.index(e)
	case "call":
		return env.call(e)
	case "mcall":
		return env.mcall(e)
	}
	return env.fail("unsupported expression kind %s", e.Kind)
}

func ratString(lit string) string {
	if !strings.Contains(lit, ".") {
		return lit
	}
	parts := strings.SplitN(lit, ".", 2)
	den := "1" + strings.Repeat("0", len(parts[1]))
	num := strings.TrimLeft(parts[0]+parts[1], "0")
	if num == "" {
		num = "0"
	}
	return num + "/" + den
}

func (env *Env) ident(name string) SV {
	if b, ok := env.binds[name]; ok {
		return SV{T: env.x.term(env.st, b.V, b.Ty), Ty: b.Ty}
	}
	if name == "nil" {
		return SV{T: Zero}
	}
	if env.cells {
		// free variables of a closure
		for _, fv := range env.fn.FreeVars {
			if fv.Name() == name {
				a := &Addr{Root: rCell, Cell: fv, Ty: derefType(fv.Type())}
				return SV{T: env.x.load(env.st, a), Ty: derefType(fv.Type())}
			}
		}
		// name#k: the k-th local of that name in source order (for shadowed names)
		if i := strings.Index(name, "#"); i > 0 {
			if k, err := strconv.Atoi(name[i+1:]); err == nil {
				base := name[:i]
				n := 0
				for _, b := range env.fn.Blocks {
					for _, in := range b.Instrs {
						if a, ok := in.(*ssa.Alloc); ok && a.Comment == base {
							n++
							if n == k {
								if v, ok := env.st.cells[a]; ok {
									return SV{T: v, Ty: derefType(a.Type())}
								}
								return env.fail("local %s is not live on this path", name)
							}
						}
					}
				}
				return env.fail("no local %s", name)
			}
		}
		// named local: the most recently written cell with that source name
		var best *ssa.Alloc
		bestSeq := -1
		for c := range env.st.cells {
			if a, ok := c.(*ssa.Alloc); ok && a.Comment == name {
				if s := env.st.cellSeq[c]; s > bestSeq {
					best, bestSeq = a, s
				}
			}
		}
		if best != nil {
			t := derefType(best.Type())
			return SV{T: env.st.cells[best], Ty: t}
		}
		for al, r := range env.st.objOf {
			if al.Comment == name {
				t := derefType(al.Type())
				switch t.Underlying().(type) {
				case *types.Struct:
					return SV{T: r, Ty: types.NewPointer(t)} // the object itself is addressed by reference
				case *types.Array:
					return env.fail("array object %s in contract", name)
				default:
					k := regHeap("M$"+sortNameOfType(t), ArrSort(SInt, sortOfStatic(t)))
					return SV{T: Select(env.st.heapArr(k, heapSorts[k]), r), Ty: t}
				}
			}
		}
	}
	// parameters by entry value when not bound explicitly (invariant mode handled above through cells)
	if pv, ok := env.x.params[name]; ok && env.fn == env.x.fn {
		return SV{T: env.x.term(env.st, pv, env.x.paramType(name)), Ty: env.x.paramType(name)}
	}
	// package-level constants and variables
	if env.pkg != nil {
		if o := env.pkg.Scope().Lookup(name); o != nil {
			switch c := o.(type) {
			case *types.Const:
				return SV{T: constTerm(c.Val(), c.Type()), Ty: c.Type()}
			}
		}
	}
	switch name {
	case "MaxInt64":
		return SV{T: BigLit(new(big.Int).Sub(pow2(63), big.NewInt(1)))}
	case "MinInt64":
		return SV{T: BigLit(new(big.Int).Neg(pow2(63)))}
	case "MaxInt32":
		return SV{T: BigLit(new(big.Int).Sub(pow2(31), big.NewInt(1)))}
	case "MinInt32":
		return SV{T: BigLit(new(big.Int).Neg(pow2(31)))}
	case "MaxUint64":
		return SV{T: BigLit(new(big.Int).Sub(pow2(64), big.NewInt(1)))}
	}
	// a local of this function that was never written on this path (declared in a branch not
	// taken): an unconstrained value, so only clauses that guard its use can be proved
	if env.x.fn != nil && env.fn == env.x.fn {
		for _, b := range env.x.fn.Blocks {
			for _, in := range b.Instrs {
				if a, ok := in.(*ssa.Alloc); ok && a.Comment == name {
					t := derefType(a.Type())
					v := env.x.freshVar("dead_"+name, sortOfStatic(t))
					return SV{T: v, Ty: t}
				}
			}
		}
	}
	return env.fail("unknown identifier %q", name)
}

func constTerm(v constant.Value, t types.Type) *Term {
	switch v.Kind() {
	case constant.Bool:
		return BoolLit(constant.BoolVal(v))
	case constant.Int:
		b, _ := new(big.Int).SetString(v.ExactString(), 10)
		return BigLit(b)
	case constant.Float:
		return RealLit(v.ExactString())
	}
	return Zero
}

func (env *Env) binary(e *Expr) SV {
	op := e.Name
	if op == "==>" {
		a := env.eval(e.Args[0])
		b := env.eval(e.Args[1])
		if a.T == nil {
			a.T = env.x.freshVar("norecord", SBool)
		}
		if b.T == nil {
			b.T = env.x.freshVar("norecord", SBool)
		}
		return SV{T: Implies(env.asBool(a), env.asBool(b)), Ty: types.Typ[types.Bool]}
	}
	a := env.eval(e.Args[0])
	b := env.eval(e.Args[1])
	if (op == "&&" || op == "||") && env.err == nil {
		// an unknown call record used as a boolean (no such call on this path): unconstrained
		if a.T == nil {
			a.T = env.x.freshVar("norecord", SBool)
		}
		if b.T == nil {
			b.T = env.x.freshVar("norecord", SBool)
		}
	}
	if env.err != nil {
		return SV{T: True}
	}
	defer func() {
		if r := recover(); r != nil {
			env.fail("%v in %s", r, e)
		}
	}()
	bt := types.Type(types.Typ[types.Bool])
	if a.T == nil || b.T == nil {
		switch op {
		case "==", "!=":
		case "<", "<=", ">", ">=":
			// an unknown record (no such call on this path, or a callee's own): unconstrained
			return SV{T: env.x.freshVar("norecord", SBool), Ty: bt}
		case "&&", "||", "==>":
			return env.fail("unknown call record used as a boolean")
		default:
			return SV{T: nil} // arithmetic over an unknown record is unknown
		}
	}
	switch op {
	case "&&":
		return SV{T: And(env.asBool(a), env.asBool(b)), Ty: bt}
	case "||":
		return SV{T: Or(env.asBool(a), env.asBool(b)), Ty: bt}
	case "==":
		return SV{T: env.eq(a, b), Ty: bt}
	case "!=":
		return SV{T: Not(env.eq(a, b)), Ty: bt}
	case "<":
		return SV{T: Lt(a.T, b.T), Ty: bt}
	case "<=":
		return SV{T: Le(a.T, b.T), Ty: bt}
	case ">":
		return SV{T: Gt(a.T, b.T), Ty: bt}
	case ">=":
		return SV{T: Ge(a.T, b.T), Ty: bt}
	case "+":
		if a.T.Sort == SStr {
			return SV{T: env.x.concat(env.st, a.T, b.T), Ty: a.Ty}
		}
		return SV{T: Add(a.T, b.T), Ty: a.Ty}
	case "-":
		return SV{T: Sub(a.T, b.T), Ty: a.Ty}
	case "*":
		return SV{T: Mul(a.T, b.T), Ty: a.Ty}
	case "/":
		if a.T.Sort == SReal || b.T.Sort == SReal {
			return SV{T: RDiv(a.T, b.T)}
		}
		return SV{T: App("tdiv", SInt, a.T, b.T), Ty: a.Ty}
	case "%":
		return SV{T: App("tmod", SInt, a.T, b.T), Ty: a.Ty}
	case "<<":
		if n, ok := b.T.IntVal(); ok && n.IsInt64() {
			return SV{T: Mul(a.T, BigLit(pow2(uint(n.Int64())))), Ty: a.Ty}
		}
	case "&":
		if r := bitAnd(a.T, b.T); r != nil {
			return SV{T: r, Ty: a.Ty}
		}
	}
	return env.fail("unsupported operator %s", op)
}

func (env *Env) asBool(v SV) *Term {
	if v.T.Sort != SBool {
		env.fail("boolean expected, got %s", v.T.Sort)
		return True
	}
	return v.T
}

func (env *Env) eq(a, b SV) *Term {
	if a.T == nil || b.T == nil {
		return env.x.freshVar("callee_local", SBool)
	}
	// a struct value is never nil (a value receiver compared with nil through an interface
	// contract's `self != nil`)
	if a.Ty != nil && b.T.Key() == Zero.Key() && b.T.Sort != a.T.Sort {
		if _, ok := a.Ty.Underlying().(*types.Struct); ok {
			return False
		}
	}
	// nil comparisons on slices
	if a.Ty != nil {
		if _, ok := a.Ty.Underlying().(*types.Slice); ok && !isByteSlice(a.Ty) && b.T.Key() == Zero.Key() {
			return Eq(sliceAcc(a.T, 0), Zero)
		}
	}
	if b.Ty != nil {
		if _, ok := b.Ty.Underlying().(*types.Slice); ok && !isByteSlice(b.Ty) && a.T.Key() == Zero.Key() {
			return Eq(sliceAcc(b.T, 0), Zero)
		}
	}
	return Eq(a.T, b.T)
}

func (env *Env) sel(e *Expr) SV {
	// package-qualified constant?
	if e.Args[0].Kind == "ident" {
		if _, bound := env.binds[e.Args[0].Name]; !bound && env.pkg != nil {
			for _, imp := range env.pkg.Imports() {
				if imp.Name() == e.Args[0].Name {
					if c, ok := imp.Scope().Lookup(e.Name).(*types.Const); ok {
						return SV{T: constTerm(c.Val(), c.Type()), Ty: c.Type()}
					}
				}
			}
		}
	}
	base := env.eval(e.Args[0])
	if env.err != nil {
		return SV{T: True}
	}
	if base.T == nil {
		return SV{T: nil, Ty: nil} // a field of an unknown call record is unknown
	}
	if base.Ty == nil {
		return env.fail("field %s of untyped value", e.Name)
	}
	return env.fieldOf(base, e.Name)
}

func (env *Env) fieldOf(base SV, name string) SV {
	bt := base.Ty
	isPtr := false
	if p, ok := bt.Underlying().(*types.Pointer); ok {
		bt = p.Elem()
		isPtr = true
	}
	st, ok := bt.Underlying().(*types.Struct)
	if !ok {
		return env.fail("field %s of non-struct %s", name, bt)
	}
	for i := 0; i < st.NumFields(); i++ {
		f := st.Field(i)
		if fieldIs(bt, f, name) {
			var r SV
			if isPtr {
				k := regHeap(fieldKey(bt, i), heapSortField(bt, i))
				r = SV{T: Select(env.st.heapArr(k, heapSorts[k]), base.T), Ty: f.Type()}
			} else {
				r = SV{T: structField(bt, base.T, i), Ty: f.Type()}
			}
			if ct, ok := f.Type().Underlying().(*types.Chan); ok && env.underBinder == 0 {
				theU.DeclFunc("chtype", SInt, SInt)
				env.st.add(Implies(Neq(r.T, Zero), Eq(App("chtype", SInt, r.T), IntLit(int64(env.x.P.typeTag(types.NewChan(types.SendRecv, ct.Elem())))))))
			}
			return r
		}
	}
	// promoted field through an embedded struct
	for i := 0; i < st.NumFields(); i++ {
		f := st.Field(i)
		if f.Embedded() {
			var inner SV
			if isPtr {
				k := regHeap(fieldKey(bt, i), heapSortField(bt, i))
				inner = SV{T: Select(env.st.heapArr(k, heapSorts[k]), base.T), Ty: f.Type()}
			} else {
				inner = SV{T: structField(bt, base.T, i), Ty: f.Type()}
			}
			it := derefType(f.Type())
			if ist, ok := it.Underlying().(*types.Struct); ok {
				for j := 0; j < ist.NumFields(); j++ {
					if ist.Field(j).Name() == name {
						return env.fieldOf(inner, name)
					}
				}
			}
		}
	}
	return env.fail("no field %s in %s", name, bt)
}

func (env *Env) index(e *Expr) SV {
	base := env.eval(e.Args[0])
	idx := env.eval(e.Args[1])
	if env.err != nil {
		return SV{T: True}
	}
	if base.T == nil || idx.T == nil {
		return SV{T: nil} // about a call record that does not exist on this path
	}
	if base.Ty == nil {
		if base.T.Sort.IsArray() {
			return SV{T: Select(base.T, idx.T)}
		}
		return env.fail("index of untyped value")
	}
	switch u := base.Ty.Underlying().(type) {
	case *types.Slice:
		if isByteSlice(base.Ty) {
			return env.fail("byte index in contract")
		}
		k := env.x.elemKey(u.Elem())
		inner := Select(env.st.heapArr(k, heapSorts[k]), sliceAcc(base.T, 0))
		if env.underBinder > 0 {
			return SV{T: sgetTerm(env.st, inner, sliceAcc(base.T, 1), idx.T), Ty: u.Elem()}
		}
		return SV{T: Select(inner, Add(sliceAcc(base.T, 1), idx.T)), Ty: u.Elem()}
	case *types.Array:
		return SV{T: Select(base.T, idx.T), Ty: u.Elem()}
	case *types.Map:
		_, vk := mapKeys(base.Ty)
		return SV{T: Select(Select(env.st.heapArr(vk, heapSorts[vk]), base.T), idx.T), Ty: u.Elem()}
	case *types.Pointer:
		// p[i] for a pointer to an array: the element region row of the object p refers to
		if at, ok := u.Elem().Underlying().(*types.Array); ok {
			k := env.x.elemKey(at.Elem())
			return SV{T: Select(Select(env.st.heapArr(k, heapSorts[k]), base.T), idx.T), Ty: at.Elem()}
		}
	}
	return env.fail("cannot index %s", base.Ty)
}

func (env *Env) inOld() *Env {
	n := *env
	if env.old != nil {
		n.st = env.old
	}
	n.isOld = true
	if n.cur == nil {
		n.cur = env
	}
	if env.oldBinds != nil {
		n.binds = env.oldBinds
	}
	return &n
}

func (env *Env) call(e *Expr) SV {
	arg := func(i int) SV {
		if i >= len(e.Args) {
			env.fail("%s: missing argument %d", e.Name, i)
			return SV{T: Zero}
		}
		return env.eval(e.Args[i])
	}
	x := env.x
	st := env.st
	bt := types.Type(types.Typ[types.Bool])
	it := types.Type(types.Typ[types.Int])
	switch e.Name {
	case "real", "itoa", "i2f", "fdiv", "fmul", "fadd", "fsub", "abs", "round", "trunc", "wrap64", "isInt":
		// arithmetic over a call record that does not exist on this path stays "no record"
		for i := range e.Args {
			if a := env.eval(e.Args[i]); a.T == nil {
				return SV{T: nil}
			}
		}
	}
	switch e.Name {
	case "now":
		// now(e): e in the current state, even inside old()/iter()/entry()/at()
		if env.cur != nil {
			r := env.cur.eval(e.Args[0])
			if env.cur.err != nil {
				env.err = env.cur.err
			}
			return r
		}
		return env.eval(e.Args[0])
	case "in":
		// in(p): the entry value of parameter p (needed where a local shadows the parameter)
		if len(e.Args) != 1 || e.Args[0].Kind != "ident" {
			return env.fail("in(parameter)")
		}
		if b, ok := env.binds[e.Args[0].Name]; ok {
			return SV{T: x.term(st, b.V, b.Ty), Ty: b.Ty}
		}
		if pv, ok := x.params[e.Args[0].Name]; ok && env.fn == x.fn {
			return SV{T: x.term(st, pv, x.paramType(e.Args[0].Name)), Ty: x.paramType(e.Args[0].Name)}
		}
		return env.fail("no parameter %s", e.Args[0].Name)
	case "global":
		// global("pkg.Name"): the current value of a package-level variable
		if len(e.Args) != 1 || e.Args[0].Kind != "str" {
			return env.fail("global(\"pkg.Name\")")
		}
		for _, pk := range x.P.Prog.AllPackages() {
			for _, m := range pk.Members {
				if g, ok := m.(*ssa.Global); ok && g.String() == e.Args[0].Lit {
					t := derefType(g.Type())
					k := regHeap("G$"+smtName(g.String()), sortOfStatic(t))
					return SV{T: st.heapArr(k, heapSorts[k]), Ty: t}
				}
			}
		}
		return env.fail("unknown global %s", e.Args[0].Lit)
	case "deref":
		// deref(p): the value a pointer refers to
		a := arg(0)
		if a.Ty == nil {
			return env.fail("deref of untyped value")
		}
		pt, ok := a.Ty.Underlying().(*types.Pointer)
		if !ok {
			return env.fail("deref of non-pointer %s", a.Ty)
		}
		et := pt.Elem()
		if _, isStruct := et.Underlying().(*types.Struct); isStruct {
			return SV{T: x.loadStructRef(st, a.T, et), Ty: et}
		}
		k := regHeap("M$"+sortNameOfType(et), ArrSort(SInt, sortOfStatic(et)))
		return SV{T: Select(st.heapArr(k, heapSorts[k]), a.T), Ty: et}
	case "iter":
		// iter(e): the value of e at the head of the current loop iteration
		if x.curLoop == nil || st.iterHead == nil || st.iterHead[x.curLoop] == nil {
			return env.fail("iter() outside a loop ensures clause")
		}
		o := *env
		o.st = st.iterHead[x.curLoop]
		if o.cur == nil {
			o.cur = env
		}
		n0 := len(o.st.assume)
		r := o.eval(e.Args[0])
		if o.err != nil {
			env.err = o.err
		}
		if len(o.st.assume) > n0 {
			env.st.add(o.st.assume[n0:]...)
		}
		return r
	case "old":
		o := env.inOld()
		// parameters keep their entry values in old(); locals are not available
		o.cells = env.cells
		n0 := len(o.st.assume)
		r := o.eval(e.Args[0])
		if o.err != nil {
			env.err = o.err
		}
		if o.st != env.st && len(o.st.assume) > n0 {
			// facts learned while reading the old state (type invariants, pure-call results)
			env.st.add(o.st.assume[n0:]...)
		}
		return r
	case "len":
		a := arg(0)
		if a.T == nil {
			return SV{T: nil} // about a call record that does not exist on this path
		}
		if a.T.Sort == SStr {
			return SV{T: x.slenOf(st, a.T), Ty: it}
		}
		if a.Ty != nil {
			switch u := a.Ty.Underlying().(type) {
			case *types.Slice:
				return SV{T: sliceAcc(a.T, 2), Ty: it}
			case *types.Array:
				return SV{T: IntLit(u.Len()), Ty: it}
			}
		}
		return env.fail("len of %v", a.Ty)
	case "cap":
		a := arg(0)
		if a.Ty != nil {
			if _, isCh := a.Ty.Underlying().(*types.Chan); isCh {
				theU.DeclFunc("chcap", SInt, SInt)
				return SV{T: App("chcap", SInt, a.T), Ty: it} // buffer size fixed by make
			}
		}
		return SV{T: sliceAcc(a.T, 3), Ty: it}
	case "real":
		return SV{T: ToReal(arg(0).T)}
	case "itoa":
		theU.DeclFunc("itoa", SStr, SInt)
		return SV{T: App("itoa", SStr, arg(0).T), Ty: types.Typ[types.String]}
	case "i2f":
		return SV{T: x.i2f(st, arg(0).T)}
	case "fdiv", "fmul", "fadd", "fsub":
		return SV{T: x.floatOp(st, e.Name, ToReal(arg(0).T), ToReal(arg(1).T))}
	case "abs":
		a := arg(0)
		if a.T.Sort == SReal {
			return SV{T: App("absr", SReal, a.T)}
		}
		return SV{T: App("absi", SInt, a.T), Ty: a.Ty}
	case "min", "max":
		a, b := arg(0), arg(1)
		if a.T == nil || b.T == nil {
			return SV{T: nil}
		}
		a.T, b.T = coerce(a.T, b.T)
		c := Le(a.T, b.T)
		if e.Name == "max" {
			c = Ge(a.T, b.T)
		}
		return SV{T: Ite(c, a.T, b.T), Ty: a.Ty}
	case "ite":
		c, a, b := arg(0), arg(1), arg(2)
		a.T, b.T = coerce(a.T, b.T)
		return SV{T: Ite(env.asBool(c), a.T, b.T), Ty: a.Ty}
	case "pow2":
		n, ok := arg(0).T.IntVal()
		if !ok || !n.IsInt64() || n.Int64() < 0 || n.Int64() > 200 {
			return env.fail("pow2 needs a small literal")
		}
		return SV{T: BigLit(pow2(uint(n.Int64())))}
	case "isInt":
		a := arg(0)
		if a.T.Op == "to_real" || a.T.Sort == SInt {
			return SV{T: True, Ty: bt}
		}
		return SV{T: Eq(ToReal(App("to_int", SInt, a.T)), a.T), Ty: bt}
	case "round":
		return SV{T: ToReal(App("iround", SInt, ToReal(arg(0).T)))} // the term math.Round gets in the code
	case "trunc":
		return SV{T: App("ftrunc", SInt, ToReal(arg(0).T))}
	case "wrap64":
		h := pow2(63)
		return SV{T: wrapTerm(arg(0).T, new(big.Int).Neg(h), new(big.Int).Sub(h, big.NewInt(1)))}
	case "dw":
		a := arg(0)
		x.strFacts(st, a.T)
		return SV{T: App("dw", SInt, a.T), Ty: it}
	case "content":
		// content(r): ghost contents of an io.Reader value built by the library
		r := x.readerContent(st, arg(0).T)
		x.strFacts(st, r)
		return SV{T: r, Ty: types.Typ[types.String]}
	case "wkey":
		wa := arg(0)
		return SV{T: x.bufKeyT(st, wa.T, wa.Ty), Ty: it}
	case "written":
		wa := arg(0)
		r := x.bufGetT(st, wa.T, wa.Ty)
		x.strFacts(st, r)
		return SV{T: r, Ty: types.Typ[types.String]}
	case "sumdw":
		// sumdw(slice, k, "field"): sum of dw(slice[i].field) for 0 <= i < k
		if len(e.Args) != 3 || e.Args[2].Kind != "str" {
			return env.fail("sumdw(slice, k, \"field\")")
		}
		sl, k := arg(0), arg(1)
		if sl.Ty == nil {
			return env.fail("sumdw needs a typed slice")
		}
		return env.sumdw(sl, k.T, e.Args[2].Lit)
	case "isext":
		theU.DeclFunc("isext", SBool, SInt)
		return SV{T: App("isext", SBool, arg(0).T), Ty: bt}
	case "cancelled":
		return SV{T: Select(st.heapArr(ghCancelled, heapSorts[ghCancelled]), arg(0).T), Ty: bt}
	case "closed":
		return SV{T: x.closedAt(st, st.heapArr(ghClosed, heapSorts[ghClosed]), arg(0).T), Ty: bt}
	case "sent":
		return SV{T: Select(st.heapArr(ghSent, heapSorts[ghSent]), arg(0).T), Ty: it}
	case "recvd":
		return SV{T: Select(st.heapArr(ghRecvd, heapSorts[ghRecvd]), arg(0).T), Ty: it}
	case "sends":
		return SV{T: st.ghostInt("#sends"), Ty: it}
	case "emptyheap":
		rv := Var("bv!r", SInt)
		return SV{T: Forall([]*Term{rv}, Not(Select(st.heapArr(ghInHeap, heapSorts[ghInHeap]), rv))), Ty: bt}
	case "pqwf":
		return SV{T: x.pqWF(st, arg(0).T), Ty: bt}
	case "inheap":
		return SV{T: Select(st.heapArr(ghInHeap, heapSorts[ghInHeap]), arg(0).T), Ty: bt}
	case "hord":
		return SV{T: st.ghostBool(ghHord), Ty: bt}
	case "hbound":
		return SV{T: st.ghostInt(ghHbound), Ty: it}
	case "entry", "at":
		// entry(N, e): e at the first arrival at loop N (before its havoc);
		// at(N, e): e at the head of the current iteration of loop N
		if len(e.Args) != 2 || e.Args[0].Kind != "int" {
			return env.fail("%s(N, e)", e.Name)
		}
		n, _ := strconv.Atoi(e.Args[0].Lit)
		var snap *State
		for l, s2 := range st.iterHead {
			if l.Ordinal == n && e.Name == "at" {
				snap = s2
			}
		}
		for l, s2 := range st.loopEntry {
			if l.Ordinal == n && e.Name == "entry" {
				snap = s2
			}
		}
		if snap == nil {
			// the loop was not entered on this path: an unknown value (clauses using it must be
			// guarded by a condition that implies the loop was entered)
			return SV{T: x.freshVar("noloop", SInt), Ty: it}
		}
		o := *env
		o.st = snap
		if o.cur == nil {
			o.cur = env
		}
		n0 := len(o.st.assume)
		r := o.eval(e.Args[1])
		if o.err != nil {
			env.err = o.err
		}
		if len(o.st.assume) > n0 {
			env.st.add(o.st.assume[n0:]...)
		}
		return r
	case "mapdom", "mapval":
		m := arg(0)
		if m.Ty == nil {
			return env.fail("%s needs a typed map", e.Name)
		}
		if _, ok := m.Ty.Underlying().(*types.Map); !ok {
			return env.fail("%s needs a map", e.Name)
		}
		dk, vk := mapKeys(m.Ty)
		if e.Name == "mapdom" {
			return SV{T: Select(st.heapArr(dk, heapSorts[dk]), m.T)}
		}
		return SV{T: Select(st.heapArr(vk, heapSorts[vk]), m.T)}
	case "has":
		// has(m, k): key k is present in map m
		m, k := arg(0), arg(1)
		if m.Ty == nil {
			return env.fail("has needs a typed map")
		}
		if _, ok := m.Ty.Underlying().(*types.Map); !ok {
			return env.fail("has needs a map")
		}
		dk, _ := mapKeys(m.Ty)
		return SV{T: And(Neq(m.T, Zero), Select(Select(st.heapArr(dk, heapSorts[dk]), m.T), k.T)), Ty: bt}
	case "pos":
		// pos(x): an uninterpreted index function; forall i: pos(s[i]) == i states that the
		// elements of s are pairwise distinct with a single-trigger quantifier
		theU.DeclFunc("pos!idx", SInt, SInt)
		return SV{T: App("pos!idx", SInt, arg(0).T), Ty: it}
	case "lastRecvd":
		a := arg(0)
		s := SInt
		var et types.Type
		if a.Ty != nil {
			if c, ok := a.Ty.Underlying().(*types.Chan); ok {
				s = sortOfStatic(c.Elem())
				et = c.Elem()
			}
		}
		lk := lastRecvKey(s)
		return SV{T: Select(st.heapArr(lk, heapSorts[lk]), a.T), Ty: et}
	case "lastSent":
		a := arg(0)
		s := SInt
		var et types.Type
		if a.Ty != nil {
			if c, ok := a.Ty.Underlying().(*types.Chan); ok {
				s = sortOfStatic(c.Elem())
				et = c.Elem()
			}
		}
		lk := lastKey(s)
		return SV{T: Select(st.heapArr(lk, heapSorts[lk]), a.T), Ty: et}
	case "spawned":
		if len(e.Args) == 0 {
			return SV{T: st.ghostInt(ghSpawn), Ty: it}
		}
		if e.Args[0].Kind != "str" {
			return env.fail("spawned needs a string literal")
		}
		return SV{T: st.ghostInt(ghSpawn + "$" + e.Args[0].Lit), Ty: it}
	case "called":
		if len(e.Args) == 0 || e.Args[0].Kind != "str" {
			return env.fail("called needs a string literal")
		}
		return SV{T: st.ghostInt(env.ghostKey("#call$" + e.Args[0].Lit)), Ty: it}
	case "calledWith":
		// calledWith("f", i): i-th argument of the last call of f
		if len(e.Args) < 2 || e.Args[0].Kind != "str" {
			return env.fail("calledWith needs (name, index)")
		}
		n, _ := strconv.Atoi(e.Args[1].Lit)
		k := env.ghostKey(fmt.Sprintf("#arg$%s$%d", e.Args[0].Lit, n))
		if t, ok := st.ghost[k]; ok {
			return SV{T: t, Ty: x.argTypes[k]}
		}
		// a callee's own record, or no such call on this path: an unknown value (an equality
		// with it is an unconstrained boolean, so a clause relying on it cannot be proved)
		return SV{T: nil, Ty: nil}
	case "when", "whenFirst":
		// when("f"): the activation's call clock at its last call of f (ordering of calls);
		// whenFirst("f"): at its first call of f
		if len(e.Args) != 1 || e.Args[0].Kind != "str" {
			return env.fail("%s needs a function name", e.Name)
		}
		pre := ghWhen
		if e.Name == "whenFirst" {
			pre = ghFirst
		}
		if t, ok := st.ghost[env.ghostKey(pre+e.Args[0].Lit)]; ok {
			return SV{T: t, Ty: it}
		}
		return SV{T: nil, Ty: nil}
	case "returned":
		// returned("f", i): i-th result of the last call of f
		if len(e.Args) < 2 || e.Args[0].Kind != "str" {
			return env.fail("returned needs (name, index)")
		}
		n, _ := strconv.Atoi(e.Args[1].Lit)
		k := env.ghostKey(fmt.Sprintf("#ret$%s$%d", e.Args[0].Lit, n))
		if t, ok := st.ghost[k]; ok {
			return SV{T: t, Ty: x.argTypes[k]}
		}
		return SV{T: nil, Ty: nil}
	case "endswith":
		// endswith(s, c): the text s ends with the byte c (what ReadBytes/ReadString promise about a line read without an error)
		if arg(0).T == nil || arg(1).T == nil {
			return SV{T: x.freshVar("norecord", SBool), Ty: bt}
		}
		theU.DeclFunc("endswith", SBool, SStr, SInt)
		return SV{T: App("endswith", SBool, arg(0).T, arg(1).T), Ty: bt}
	case "plain":
		// plain(s): s carries no zero-width control sequences, so runewidth measures it truly
		if arg(0).T == nil {
			return SV{T: x.freshVar("norecord", SBool), Ty: bt}
		}
		theU.DeclFunc("plain", SBool, SStr)
		return SV{T: App("plain", SBool, arg(0).T), Ty: bt}
	case "typeof":
		return SV{T: App("typeof", SInt, arg(0).T), Ty: it}
	case "hasType":
		// hasType(v, "pkg.Type") with a module type name
		if len(e.Args) < 2 || e.Args[1].Kind != "str" {
			return env.fail("hasType needs (value, type name)")
		}
		t := env.lookupType(e.Args[1].Lit)
		if t == nil {
			return env.fail("unknown type %s", e.Args[1].Lit)
		}
		if arg(0).T == nil {
			return SV{T: x.freshVar("norecord", SBool), Ty: bt} // about an unknown call record: unconstrained
		}
		if a := arg(0); a.Ty != nil {
			if it, isI := a.Ty.Underlying().(*types.Interface); isI {
				if _, tIsI := t.Underlying().(*types.Interface); !tIsI && !types.Implements(t, it) {
					// a value of interface type never holds a type that does not implement it
					return SV{T: False, Ty: bt}
				}
			} else {
				// a value of concrete static type: its type is known
				if types.Identical(a.Ty, t) {
					return SV{T: True, Ty: bt}
				}
				if _, tIsI := t.Underlying().(*types.Interface); !tIsI {
					return SV{T: False, Ty: bt}
				}
			}
		}
		return SV{T: x.hasType(st, arg(0).T, t), Ty: bt}
	case "unboxAs":
		if len(e.Args) < 2 || e.Args[1].Kind != "str" {
			return env.fail("unboxAs needs (value, type name)")
		}
		t := env.lookupType(e.Args[1].Lit)
		if t == nil {
			return env.fail("unknown type %s", e.Args[1].Lit)
		}
		if a := arg(0); a.Ty != nil && types.Identical(a.Ty, t) {
			return SV{T: a.T, Ty: t} // already a value of that type
		}
		return SV{T: x.unbox(arg(0).T, t), Ty: t}
	case "done":
		// the Done channel of a context (a function of the context value, as in ext.go)
		theU.DeclFunc("ctxdone", SInt, SInt)
		return SV{T: App("ctxdone", SInt, arg(0).T), Ty: types.NewChan(types.RecvOnly, types.NewStruct(nil, nil))}
	case "bound":
		// bound(closure, "name"): the current value of the variable a closure made by this
		// function captured (by reference) under that name
		if len(e.Args) != 2 || e.Args[1].Kind != "str" {
			return env.fail("bound needs a closure and a variable name")
		}
		if arg(0).T == nil {
			return SV{T: nil, Ty: nil} // of an unknown call record: unknown
		}
		// the value may or may not be (provably) one of the closures made on this path: an
		// if-then-else over the candidates, unconstrained otherwise
		var keys []string
		for k := range st.clos {
			keys = append(keys, k)
		}
		sort.Strings(keys)
		var res *Term
		var rty types.Type
		for _, k := range keys {
			cv := st.clos[k]
			if cv.Fn == nil || cv.T == nil {
				continue
			}
			for i, fv := range cv.Fn.FreeVars {
				if fv.Name() != e.Args[1].Lit || i >= len(cv.Binds) {
					continue
				}
				b := cv.Binds[i]
				t := derefType(fv.Type())
				var val *Term
				if b.Addr != nil {
					val = x.load(st, b.Addr)
				} else if a := x.ptrAddr(st, b, fv.Type()); a != nil {
					val = x.load(st, a)
				}
				if val == nil {
					continue
				}
				if res == nil {
					res = x.freshVar("bound_"+fv.Name(), val.Sort)
					rty = t
				}
				if val.Sort != res.Sort {
					continue
				}
				res = Ite(Eq(arg(0).T, cv.T), val, res)
			}
		}
		if res == nil && x.fn != nil {
			// a path on which the closure was never made: the value is unconstrained
			for _, af := range x.fn.AnonFuncs {
				for _, fv := range af.FreeVars {
					if fv.Name() == e.Args[1].Lit && res == nil {
						rty = derefType(fv.Type())
						res = x.freshVar("bound_"+fv.Name(), sortOfStatic(rty))
					}
				}
			}
		}
		if res == nil {
			return env.fail("bound: no closure made on this path captures a variable %s", e.Args[1].Lit)
		}
		return SV{T: res, Ty: rty}
	case "pure":
		// pure("pkg.Func", args...): the value of a module function with a `pure` contract
		// over scalar parameters - the same uninterpreted application the code's calls get
		if len(e.Args) == 0 || e.Args[0].Kind != "str" {
			return env.fail("pure needs a function name")
		}
		var callee *ssa.Function
		for _, f := range x.P.ModFuncs {
			if f.Signature.Recv() != nil || f.Parent() != nil {
				continue
			}
			if fnPkg(f).Name()+"."+f.Name() == e.Args[0].Lit || (fnPkg(f) == env.pkg && f.Name() == e.Args[0].Lit) {
				callee = f
			}
		}
		if callee == nil {
			return env.fail("pure: unknown function %s", e.Args[0].Lit)
		}
		ct := x.P.Contracts[callee]
		if ct == nil || !ct.Pure || len(callee.Params) != len(e.Args)-1 {
			return env.fail("pure: %s has no pure contract with %d parameters", e.Args[0].Lit, len(e.Args)-1)
		}
		var ats []*Term
		var avs []Val
		var names []string
		var tys []types.Type
		for i := range callee.Params {
			av := arg(i + 1)
			if av.T == nil {
				return env.fail("pure: argument %d has no value", i+1)
			}
			t := av.T
			if want := sortOfStatic(callee.Params[i].Type()); t.Sort != want && want == SReal && t.Sort == SInt {
				t = ToReal(t)
			}
			ats = append(ats, t)
			avs = append(avs, Val{T: t})
			names = append(names, callee.Params[i].Name())
			tys = append(tys, callee.Params[i].Type())
		}
		app := x.pureApp(callee, ats)
		if app == nil {
			return env.fail("pure: %s is not a function of scalars", e.Args[0].Lit)
		}
		rt := callee.Signature.Results().At(0).Type()
		cenv := x.callEnv(st, st, callee, names, tys, avs)
		cenv.binds["result"] = specBinding{Val{T: app}, rt}
		cenv.binds["result0"] = specBinding{Val{T: app}, rt}
		st.add(rangeFacts(app, rt)...)
		for _, en := range ct.Ensures {
			if en.inactive(x.prop) {
				continue
			}
			t := cenv.eval(en.Expr)
			if cenv.err != nil {
				return env.fail("in contract of %s: %v", relName(callee), cenv.err)
			}
			st.add(t.T)
		}
		return SV{T: app, Ty: rt}
	case "fnof":
		if arg(0).T == nil {
			return SV{T: nil, Ty: nil} // of an unknown call record: unknown
		}
		theU.DeclFunc("fnof", SInt, SInt)
		return SV{T: App("fnof", SInt, arg(0).T), Ty: it}
	case "fn":
		if len(e.Args) == 0 || e.Args[0].Kind != "str" {
			return env.fail("fn needs a string literal")
		}
		for _, f := range x.P.ModFuncs {
			if relName(f) == e.Args[0].Lit && fnPkg(f) == env.pkg {
				return SV{T: x.fnRef(f), Ty: it}
			}
		}
		return env.fail("unknown function %s", e.Args[0].Lit)
	case "forall", "exists":
		// forall(i, lo, hi, body): lo <= i < hi; forall(i, body): every integer (reference)
		if len(e.Args) == 2 && e.Args[0].Kind == "ident" {
			bv := Var("bv!"+e.Args[0].Name, SInt)
			saved, had := env.binds[e.Args[0].Name]
			env.binds[e.Args[0].Name] = specBinding{Val{T: bv}, nil}
			env.underBinder++
			body := env.eval(e.Args[1])
			env.underBinder--
			if had {
				env.binds[e.Args[0].Name] = saved
			} else {
				delete(env.binds, e.Args[0].Name)
			}
			if e.Name == "forall" {
				return SV{T: Forall([]*Term{bv}, env.asBool(body)), Ty: bt}
			}
			return SV{T: Not(Forall([]*Term{bv}, Not(env.asBool(body)))), Ty: bt}
		}
		if len(e.Args) != 4 || e.Args[0].Kind != "ident" {
			return env.fail("%s(i, lo, hi, body)", e.Name)
		}
		lo, hi := arg(1), arg(2)
		if lv, ok1 := lo.T.IntVal(); ok1 {
			if hv, ok2 := hi.T.IntVal(); ok2 && lv.IsInt64() && hv.IsInt64() && new(big.Int).Sub(hv, lv).Cmp(big.NewInt(16)) <= 0 {
				// literal bounds: expand
				var parts []*Term
				saved, had := env.binds[e.Args[0].Name]
				for i := lv.Int64(); i < hv.Int64(); i++ {
					env.binds[e.Args[0].Name] = specBinding{Val{T: IntLit(i)}, it}
					parts = append(parts, env.asBool(env.eval(e.Args[3])))
				}
				if had {
					env.binds[e.Args[0].Name] = saved
				} else {
					delete(env.binds, e.Args[0].Name)
				}
				if e.Name == "forall" {
					return SV{T: And(parts...), Ty: bt}
				}
				return SV{T: Or(parts...), Ty: bt}
			}
		}
		bv := Var("bv!"+e.Args[0].Name, SInt)
		saved, had := env.binds[e.Args[0].Name]
		env.binds[e.Args[0].Name] = specBinding{Val{T: bv}, it}
		env.underBinder++
		body := env.eval(e.Args[3])
		env.underBinder--
		if had {
			env.binds[e.Args[0].Name] = saved
		} else {
			delete(env.binds, e.Args[0].Name)
		}
		rng := And(Le(lo.T, bv), Lt(bv, hi.T))
		if e.Name == "forall" {
			return SV{T: Forall([]*Term{bv}, Implies(rng, env.asBool(body))), Ty: bt}
		}
		return SV{T: Not(Forall([]*Term{bv}, Implies(rng, Not(env.asBool(body))))), Ty: bt}
	case "allocated", "fresh":
		a := arg(0)
		ref := a.T
		if a.Ty != nil {
			if _, isSl := a.Ty.Underlying().(*types.Slice); isSl {
				ref = sliceAcc(a.T, 0) // a slice is fresh when its backing array is
			}
		}
		if e.Name == "allocated" {
			return SV{T: Le(ref, st.ghostInt("top")), Ty: bt}
		}
		o := env.inOld()
		return SV{T: Gt(ref, o.st.ghostInt("top")), Ty: bt}
	}
	// pure module functions callable in contracts: f(args) or recv.m(args) are not parsed as
	// calls on selectors; only plain spec definitions reach here
	if d, ok := x.P.Spec.Defs[e.Name]; ok {
		if len(d.Params) != len(e.Args) {
			return env.fail("%s expects %d arguments", e.Name, len(d.Params))
		}
		saved := map[string]*specBinding{}
		var vals []SV
		for i := range d.Params {
			vals = append(vals, arg(i))
		}
		for i, p := range d.Params {
			if b, ok := env.binds[p]; ok {
				bb := b
				saved[p] = &bb
			} else {
				saved[p] = nil
			}
			env.binds[p] = specBinding{Val{T: vals[i].T}, vals[i].Ty}
		}
		r := env.eval(d.Body)
		for p, b := range saved {
			if b == nil {
				delete(env.binds, p)
			} else {
				env.binds[p] = *b
			}
		}
		return r
	}
	return env.fail("unknown spec function %s", e.Name)
}

func (env *Env) lookupType(name string) types.Type {
	if strings.HasPrefix(name, "[]") {
		if et := env.lookupType(name[2:]); et != nil {
			return types.NewSlice(et)
		}
		return nil
	}
	ptr := false
	if strings.HasPrefix(name, "*") {
		ptr = true
		name = name[1:]
	}
	var t types.Type
	pkgName, typeName := "", name
	if i := strings.LastIndex(name, "."); i >= 0 {
		pkgName, typeName = name[:i], name[i+1:]
	}
	for _, p := range env.x.P.Pkgs {
		if (pkgName == "" && p.Types == env.pkg) || p.Types.Name() == pkgName {
			if o, ok := p.Types.Scope().Lookup(typeName).(*types.TypeName); ok {
				t = o.Type()
			}
		}
	}
	if t == nil && pkgName != "" && env.pkg != nil {
		for _, imp := range env.pkg.Imports() {
			if imp.Name() == pkgName {
				if o, ok := imp.Scope().Lookup(typeName).(*types.TypeName); ok {
					t = o.Type()
				}
			}
		}
	}
	if t == nil && pkgName == "" {
		if o, ok := types.Universe.Lookup(typeName).(*types.TypeName); ok {
			t = o.Type()
		}
	}
	if t == nil {
		switch name {
		case "chan<- bool":
			return types.NewChan(types.SendOnly, types.Typ[types.Bool])
		case "<-chan struct{}":
			return types.NewChan(types.RecvOnly, types.NewStruct(nil, nil))
		case "chan<- interface{}":
			return types.NewChan(types.SendOnly, types.NewInterfaceType(nil, nil))
		}
		return nil
	}
	if ptr {
		return types.NewPointer(t)
	}
	return t
}

// sumdw: Σ_{i<k} dw(slice[i].field), as an uninterpreted function of (element array, offset,
// k) with its defining equations instantiated at the terms that occur: fully for a literal
// k, one step otherwise.
func (env *Env) sumdw(sl SV, k *Term, field string) SV {
	x := env.x
	u, ok := sl.Ty.Underlying().(*types.Slice)
	if !ok {
		return env.fail("sumdw of non-slice")
	}
	ek := x.elemKey(u.Elem())
	arr := Select(env.st.heapArr(ek, heapSorts[ek]), sliceAcc(sl.T, 0))
	off := sliceAcc(sl.T, 1)
	fname := "sumdw!" + sanitize(string(arr.Sort)) + "!" + field
	if _, known := theU.funcs[fname]; !known {
		theU.DeclFunc(fname, SInt, arr.Sort, SInt, SInt)
		// monotone in the upper bound (a consequence of dw >= 0, provable by induction on b-a;
		// stated as an axiom of the spec function)
		theU.funcAxioms[fname] = fmt.Sprintf("(assert (forall ((a %s) (o Int) (i Int) (j Int)) (! (=> (and (<= 0 i) (<= i j)) (<= (%s a o i) (%s a o j))) :pattern ((%s a o i) (%s a o j)))))\n",
			arr.Sort, fname, fname, fname, fname)
	}
	elemDw := func(i *Term) *Term {
		ev := SV{T: Select(arr, Add(off, i)), Ty: u.Elem()}
		f := env.fieldOf(ev, field)
		x.strFacts(env.st, f.T)
		return App("dw", SInt, f.T)
	}
	it := types.Type(types.Typ[types.Int])
	if n, isLit := k.IntVal(); isLit && n.IsInt64() && n.Int64() >= 0 && n.Int64() <= 8 {
		var sum *Term = Zero
		for i := int64(0); i < n.Int64(); i++ {
			sum = Add(sum, elemDw(IntLit(i)))
		}
		return SV{T: sum, Ty: it} // literal bound: the sum itself, no function symbol
	}
	t := App(fname, SInt, arr, off, k)
	env.st.add(Implies(Le(k, Zero), Eq(t, Zero)))
	km1 := Sub(k, One)
	env.st.add(Implies(Gt(k, Zero), Eq(t, Add(App(fname, SInt, arr, off, km1), elemDw(km1)))))
	env.st.add(Implies(Le(km1, Zero), Eq(App(fname, SInt, arr, off, km1), Zero)))
	env.st.add(Ge(t, Zero), Ge(App(fname, SInt, arr, off, km1), Zero))
	// successor unfolding (the sum is a total function of the element array)
	kp1 := Add(k, One)
	env.st.add(Implies(Ge(k, Zero), Eq(App(fname, SInt, arr, off, kp1), Add(t, elemDw(k)))))
	return SV{T: t, Ty: it}
}
