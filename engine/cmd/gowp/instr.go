package main

import (
	"fmt"
	"os"
	"sort"
	"go/token"
	"go/types"
	"math/big"
	"strings"

	"golang.org/x/tools/go/ssa"
)

// run executes from the start of block b (entered from st.prev) to the ends of all paths.
func (x *Exec) run(st *State, b *ssa.BasicBlock) {
	if x.capped {
		return
	}
	if l := x.headOf[b]; l != nil {
		if st.prev != nil && l.Body[st.prev] && st.inLoop[l] {
			// back edge: invariant preserved, variant decreased; path ends
			x.checkInvariants(st, l, "preserved")
			x.checkCounters(st, l)
			x.checkLoopFrame(st, l)
			x.checkLoopEnsures(st, l)
			if dec := x.ct.loopDec(l.Ordinal); dec != nil && x.isRangeLoop(l) {
				// a lowered `range` over a slice, array or integer terminates by construction (its
				// hidden index only grows and is bounded by a length fixed before the loop): the
				// declared variant may be stated over the loop variable of an index loop the code
				// no longer has
				x.oblige(st, "variant", fmt.Sprintf("#%d", l.Ordinal), True, b.Instrs[0].Pos(), "range loop: terminates by construction")
			} else if dec != nil {
				nv, ok := x.evalSpec(st, dec.Expr, "inv")
				if ok && st.variantAt[l] != nil {
					x.oblige(st, "variant", fmt.Sprintf("#%d", l.Ordinal), And(Lt(nv, st.variantAt[l]), Ge(st.variantAt[l], Zero)),
						b.Instrs[0].Pos(), "loop variant decreases and is bounded below: "+dec.Text)
				}
			}
			x.endPath()
			return
		}
		// loop entry
		if x.ct != nil {
			if st.loopEntry == nil {
				st.loopEntry = map[*Loop]*State{}
			}
			st.loopEntry[l] = st.clone()
		}
		x.checkInvariants(st, l, "established")
		x.havocLoop(st, l)
		x.assumeInvariants(st, l)
		st.inLoop[l] = true
		if x.ct != nil {
			if st.iterHead == nil {
				st.iterHead = map[*Loop]*State{}
			}
			st.iterHead[l] = st.clone()
		}
		if dec := x.ct.loopDec(l.Ordinal); dec != nil {
			if v, ok := x.evalSpec(st, dec.Expr, "inv"); ok {
				st.variantAt[l] = v
			}
		}
	}
	for _, in := range b.Instrs {
		if !x.step(st, in) {
			return
		}
	}
}

func (c *Contract) loopDec(n int) *Clause {
	if c == nil {
		return nil
	}
	return c.LoopDec[n]
}

func (x *Exec) endPath() {
	x.paths++
	if x.paths > x.pathCap {
		x.capped = true
	}
}

func (x *Exec) checkInvariants(st *State, l *Loop, what string) {
	if x.ct == nil {
		return
	}
	for i, inv := range x.ct.LoopInv[l.Ordinal] {
		t, ok := x.evalSpec(st, inv.Expr, "inv")
		if !ok {
			continue
		}
		label := inv.Label
		if label == "" {
			label = fmt.Sprint(i + 1)
		}
		cp := st.clone() // do not let one invariant's assumption help the next one's proof unsoundly: it is fine, they are all asserted
		_ = cp
		x.oblige(st, "inv", fmt.Sprintf("#%d:%s:%s", l.Ordinal, label, what), t, l.Head.Instrs[0].Pos(),
			"loop invariant "+what+": "+inv.Text)
	}
}

// checkLoopEnsures: per-iteration postconditions (loop N ensures ...), relating the state at
// the back edge to the state at the head of the same iteration (iter(e)).
func (x *Exec) checkLoopEnsures(st *State, l *Loop) {
	if x.ct == nil {
		return
	}
	for i, cl := range x.ct.LoopEns[l.Ordinal] {
		if cl.inactive(x.prop) {
			continue
		}
		x.curLoop = l
		t, ok := x.evalSpec(st, cl.Expr, "inv")
		x.curLoop = nil
		if !ok {
			continue
		}
		label := cl.Label
		if label == "" {
			label = fmt.Sprint(i + 1)
		}
		x.oblige(st.clone(), "iter", fmt.Sprintf("#%d:%s", l.Ordinal, label), t, l.Head.Instrs[0].Pos(), "per-iteration postcondition: "+cl.Text)
	}
}

func (x *Exec) assumeInvariants(st *State, l *Loop) {
	if x.ct == nil {
		return
	}
	for _, inv := range x.ct.LoopInv[l.Ordinal] {
		if t, ok := x.evalSpec(st, inv.Expr, "inv"); ok {
			st.add(t)
		}
	}
	for _, as := range x.ct.LoopAsm[l.Ordinal] {
		if t, ok := x.evalSpec(st, as.Expr, "inv"); ok {
			st.add(t)
			txt := fmt.Sprintf("%s loop %d: %s", relName(x.fn), l.Ordinal, as.Text)
			seen := false
			for _, a := range x.assumedClauses {
				seen = seen || a == txt
			}
			if !seen {
				x.assumedClauses = append(x.assumedClauses, txt)
			}
		}
	}
}

func (x *Exec) havocLoop(st *State, l *Loop) {
	// cells assigned in the body
	if l.Cells == nil && len(l.Mods) == 0 {
		seen := map[*ssa.Alloc]bool{}
		for b := range l.Body {
			for _, in := range b.Instrs {
				if s, ok := in.(*ssa.Store); ok {
					if a := rootAlloc(s.Addr); a != nil && !seen[a] {
						seen[a] = true
						l.Cells = append(l.Cells, a)
					}
				}
				x.P.instrMods(x.fn, in, x.fresh, l.Mods)
				// stores to heap-class local objects
				if s, ok := in.(*ssa.Store); ok {
					if a := rootAlloc(s.Addr); a != nil && x.heapCls[a] {
						k, _, _ := x.P.addrKeyHeapLocal(s.Addr)
						if k != "" {
							l.Mods[k] = true
						}
					}
				}
			}
		}
		if l.Cells == nil {
			l.Cells = []*ssa.Alloc{}
		}
	}
	var bounds []counterBound
	for _, a := range l.Cells {
		if x.heapCls[a] {
			continue
		}
		old, ok := st.cells[a]
		if !ok {
			continue // allocated inside the loop: re-initialised by its Alloc
		}
		t := derefType(a.Type())
		nv := x.freshVar("loop_"+a.Comment, sortOfStatic(t))
		st.cells[a] = nv
		x.enterFacts(st, nv, t)
		if dir := x.counterDirection(l, a); dir != 0 && old != nil {
			// engine-supplied invariant of a guarded counting loop (proved again at every back
			// edge: obligation autoinv): the counter stays on one side of its entry value
			if dir > 0 {
				st.add(Ge(nv, old))
			} else {
				st.add(Le(nv, old))
			}
			bounds = append(bounds, counterBound{a, dir > 0, old})
		}
	}
	if len(bounds) > 0 {
		if st.counters == nil {
			st.counters = map[*Loop][]counterBound{}
		}
		st.counters[l] = bounds
	}
	if os.Getenv("GOWP_DEBUG") != "" {
		fmt.Fprintf(os.Stderr, "loop %d of %s: mods %v cells %d\n", l.Ordinal, relName(x.fn), sortedKeys(l.Mods), len(l.Cells))
	}
	mods := l.Mods
	var locs []loopLoc
	if x.ct != nil && len(x.ct.LoopMod[l.Ordinal]) > 0 {
		// declared loop frame: for the keys named, only the listed locations change
		mods = map[string]bool{}
		for k := range l.Mods {
			mods[k] = true
		}
		locs = x.loopLocs(st, l)
		for _, lc := range locs {
			delete(mods, lc.key)
			if lc.key == ghSent {
				delete(mods, ghLast)
			}
		}
	}
	x.havoc(st, mods)
	x.havocLoopCalls(st, l)
	for _, lc := range locs {
		arr := st.heapArr(lc.key, heapSorts[lc.key])
		nv := x.freshVar("loopmod", arr.Sort.ArrElem())
		if arr.Sort.ArrElem() == SStr {
			x.strFacts(st, nv)
		}
		if lc.key == ghSent || lc.key == ghRecvd {
			st.add(Ge(nv, Select(arr, lc.at)))
		}
		st.heap[lc.key] = Store(arr, lc.at, nv)
	}
	if len(locs) > 0 {
		if st.loopHeap == nil {
			st.loopHeap = map[*Loop]map[string]*Term{}
		}
		snap := map[string]*Term{}
		for _, lc := range locs {
			snap[lc.key] = st.heap[lc.key]
		}
		st.loopHeap[l] = snap
	}
	x.rangeIndexInvariant(st, l)
}

// rangeIndexInvariant: engine-supplied invariant of a lowered `range` over a slice, array or
// integer: the hidden index cell satisfies -1 <= rangeindex < len at the loop head (it is
// incremented by the head only, compared with a length computed before the loop, and cannot
// be named by the body).
// isRangeLoop: the loop head has the shape go/ssa gives a `range` over a slice, array or int.
func (x *Exec) isRangeLoop(l *Loop) bool {
	h := l.Head
	if len(h.Instrs) < 5 {
		return false
	}
	ld, ok1 := h.Instrs[0].(*ssa.UnOp)
	inc, ok2 := h.Instrs[1].(*ssa.BinOp)
	stI, ok3 := h.Instrs[2].(*ssa.Store)
	cmpI, ok4 := h.Instrs[3].(*ssa.BinOp)
	_, ok5 := h.Instrs[4].(*ssa.If)
	if !(ok1 && ok2 && ok3 && ok4 && ok5) {
		return false
	}
	cell, ok := ld.X.(*ssa.Alloc)
	return ok && cell.Comment == "rangeindex" && stI.Addr == ssa.Value(cell) && inc.X == ssa.Value(ld) && cmpI.X == ssa.Value(inc) && cmpI.Op == token.LSS
}

func (x *Exec) rangeIndexInvariant(st *State, l *Loop) {
	h := l.Head
	if len(h.Instrs) < 5 {
		return
	}
	ld, ok1 := h.Instrs[0].(*ssa.UnOp)
	inc, ok2 := h.Instrs[1].(*ssa.BinOp)
	stI, ok3 := h.Instrs[2].(*ssa.Store)
	cmpI, ok4 := h.Instrs[3].(*ssa.BinOp)
	_, ok5 := h.Instrs[4].(*ssa.If)
	if !(ok1 && ok2 && ok3 && ok4 && ok5) {
		return
	}
	cell, ok := ld.X.(*ssa.Alloc)
	if !ok || cell.Comment != "rangeindex" || stI.Addr != ssa.Value(cell) || inc.X != ssa.Value(ld) || cmpI.X != ssa.Value(inc) || cmpI.Op != token.LSS {
		return
	}
	ri, ok := st.cells[cell]
	if !ok {
		return
	}
	n := x.term(st, x.val(st, cmpI.Y), cmpI.Y.Type())
	st.add(Ge(ri, IntLit(-1)), Or(Lt(ri, n), Eq(ri, IntLit(-1))))
}

// counterDirection: +1 / -1 when every store to the integer cell inside the loop adds / subtracts
// a non-negative constant to its own value and the loop's guard compares the cell (a counting
// loop `for i := a; i < n; i++`, in either direction); 0 otherwise. Under the guard the step
// cannot wrap around, so the bound is an invariant in wrapping arithmetic too.
func (x *Exec) counterDirection(l *Loop, a *ssa.Alloc) int {
	if x.ct != nil && x.ct.Wraps {
		return 0
	}
	bt, ok := derefType(a.Type()).Underlying().(*types.Basic)
	if !ok || bt.Info()&types.IsInteger == 0 || bt.Info()&types.IsUnsigned != 0 {
		return 0
	}
	isLoad := func(v ssa.Value) bool {
		u, ok := v.(*ssa.UnOp)
		return ok && u.Op == token.MUL && u.X == ssa.Value(a)
	}
	dir := 0
	for b := range l.Body {
		for _, in := range b.Instrs {
			s, ok := in.(*ssa.Store)
			if !ok || rootAlloc(s.Addr) != a {
				continue
			}
			if s.Addr != ssa.Value(a) {
				return 0
			}
			bo, ok := s.Val.(*ssa.BinOp)
			if !ok || (bo.Op != token.ADD && bo.Op != token.SUB) || !isLoad(bo.X) {
				return 0
			}
			c, ok := bo.Y.(*ssa.Const)
			if !ok || c.Value == nil {
				return 0
			}
			n := c.Int64()
			if bo.Op == token.SUB {
				n = -n
			}
			d := 0
			if n > 0 {
				d = 1
			} else if n < 0 {
				d = -1
			}
			if d != 0 && dir != 0 && d != dir {
				return 0
			}
			if d != 0 {
				dir = d
			}
		}
	}
	if dir == 0 {
		return 0
	}
	// the guard at the head compares the counter
	h := l.Head
	if len(h.Instrs) == 0 {
		return 0
	}
	ifI, ok := h.Instrs[len(h.Instrs)-1].(*ssa.If)
	if !ok {
		return 0
	}
	cmp, ok := ifI.Cond.(*ssa.BinOp)
	if !ok {
		return 0
	}
	switch cmp.Op {
	case token.LSS, token.LEQ, token.GTR, token.GEQ:
	default:
		return 0
	}
	if !isLoad(cmp.X) && !isLoad(cmp.Y) {
		return 0
	}
	// moving towards the bound it is compared with: i < n / i <= n going up, i > n / i >= n going down
	up := (isLoad(cmp.X) && (cmp.Op == token.LSS || cmp.Op == token.LEQ)) || (isLoad(cmp.Y) && (cmp.Op == token.GTR || cmp.Op == token.GEQ))
	if up != (dir > 0) {
		return 0
	}
	return dir
}

// checkCounters: the inferred counter bounds hold again at the back edge.
func (x *Exec) checkCounters(st *State, l *Loop) {
	for _, cb := range st.counters[l] {
		cur, ok := st.cells[cb.cell]
		if !ok || cur == nil {
			continue
		}
		goal := Le(cur, cb.entry)
		if cb.up {
			goal = Ge(cur, cb.entry)
		}
		x.oblige(st.clone(), "autoinv", fmt.Sprintf("#%d:%s", l.Ordinal, cb.cell.Comment), goal, l.Head.Instrs[0].Pos(),
			"inferred bound of the loop counter "+cb.cell.Comment+" (it only moves one way)")
	}
}

type loopLoc struct {
	key string
	at  *Term
}

// loopLocs evaluates the declared loop frame (loop N modifies written(w), x.f, sent(ch)).
func (x *Exec) loopLocs(st *State, l *Loop) []loopLoc {
	var out []loopLoc
	for _, e := range x.ct.LoopMod[l.Ordinal] {
		env := &Env{x: x, st: st, old: x.entry, fn: x.fn, binds: map[string]specBinding{}, cells: true, mode: "inv", pkg: fnPkg(x.fn)}
		switch {
		case e.Kind == "call" && len(e.Args) == 1 && (e.Name == "written" || e.Name == "sent" || e.Name == "recvd" || e.Name == "closed" || e.Name == "content" || e.Name == "cancelled"):
			at := env.eval(e.Args[0])
			if env.err != nil {
				x.specError(e, env.err)
				continue
			}
			key := map[string]string{"written": ghBuf, "sent": ghSent, "recvd": ghRecvd, "closed": ghClosed, "content": ghRd, "cancelled": ghCancelled}[e.Name]
			loc := at.T
			if e.Name == "written" {
				loc = x.bufKeyT(st, loc, at.Ty)
			}
			out = append(out, loopLoc{key, loc})
		case e.Kind == "call" && e.Name == "elems" && len(e.Args) == 1 && e.Args[0].Kind != "str":
			// elems(s): the elements of the array behind slice s (one row of the element region)
			sl := env.eval(e.Args[0])
			if env.err != nil || sl.Ty == nil {
				x.specError(e, fmt.Errorf("loop frame: cannot evaluate %s", e))
				continue
			}
			slt, ok := sl.Ty.Underlying().(*types.Slice)
			if !ok {
				x.specError(e, fmt.Errorf("loop frame: elems() needs a slice"))
				continue
			}
			k := regHeap("E$"+sortNameOfType(slt.Elem()), ArrSort(SInt, ArrSort(SInt, sortOfStatic(slt.Elem()))))
			out = append(out, loopLoc{k, sliceAcc(sl.T, 0)})
		case e.Kind == "sel":
			base := env.eval(e.Args[0])
			if env.err != nil || base.Ty == nil {
				x.specError(e, fmt.Errorf("loop frame: cannot evaluate %s", e))
				continue
			}
			bt := derefType(base.Ty)
			if stt, ok := bt.Underlying().(*types.Struct); ok {
				for i := 0; i < stt.NumFields(); i++ {
					if fieldIs(bt, stt.Field(i), e.Name) {
						out = append(out, loopLoc{regHeap(fieldKey(bt, i), heapSortField(bt, i)), base.T})
					}
				}
			}
		default:
			x.specError(e, fmt.Errorf("unsupported loop frame target"))
		}
	}
	return out
}

// checkLoopFrame: at the back edge, for the keys of the declared loop frame, everything but
// the listed locations is as it was at the loop head.
func (x *Exec) checkLoopFrame(st *State, l *Loop) {
	snap := st.loopHeap[l]
	if snap == nil {
		return
	}
	locs := x.loopLocs(st, l)
	byKey := map[string][]*Term{}
	for _, lc := range locs {
		byKey[lc.key] = append(byKey[lc.key], lc.at)
	}
	var ks []string
	for k := range snap {
		ks = append(ks, k)
	}
	sort.Strings(ks)
	for _, k := range ks {
		cur := st.heapArr(k, heapSorts[k])
		if cur.Key() == snap[k].Key() {
			continue
		}
		sk := x.freshVar("loopframe_r", SInt)
		var conds []*Term
		for _, at := range byKey[k] {
			conds = append(conds, Neq(sk, at))
		}
		x.oblige(st.clone(), "loopframe", fmt.Sprintf("#%d:%s", l.Ordinal, k), Implies(And(conds...), Eq(Select(cur, sk), Select(snap[k], sk))),
			l.Head.Instrs[0].Pos(), "loop frame: only the declared locations of "+k+" change in the loop body")
	}
}

func rootAlloc(v ssa.Value) *ssa.Alloc {
	for {
		switch a := v.(type) {
		case *ssa.Alloc:
			return a
		case *ssa.FieldAddr:
			v = a.X
		case *ssa.IndexAddr:
			v = a.X
		default:
			return nil
		}
	}
}

// addrKeyHeapLocal: heap key written by a store whose root is a heap-class local object.
func (P *Program) addrKeyHeapLocal(v ssa.Value) (string, bool, bool) {
	switch a := v.(type) {
	case *ssa.FieldAddr:
		if _, ok := a.X.(*ssa.Alloc); ok {
			return fieldKey(derefType(a.X.Type()), a.Field), true, false
		}
		return P.addrKeyHeapLocal(a.X)
	case *ssa.IndexAddr:
		if al, ok := a.X.(*ssa.Alloc); ok {
			if at, ok := derefType(al.Type()).Underlying().(*types.Array); ok {
				return "E$" + sortNameOfType(at.Elem()), true, false
			}
		}
		return P.addrKeyHeapLocal(a.X)
	case *ssa.Alloc:
		t := derefType(a.Type())
		if !isAggregate(t) {
			return "M$" + sortNameOfType(t), true, false
		}
	}
	return "", false, false
}

// step executes one instruction; false = the path ended (or was forked and continued elsewhere).
func (x *Exec) step(st *State, in ssa.Instruction) bool {
	switch i := in.(type) {
	case *ssa.DebugRef:
		return true
	case *ssa.Alloc:
		x.doAlloc(st, i)
	case *ssa.Store:
		x.doStore(st, i)
	case *ssa.UnOp:
		x.doUnOp(st, i)
	case *ssa.BinOp:
		st.regs[i] = Val{T: x.binop(st, i, i.Op, x.val(st, i.X), x.val(st, i.Y), i.X.Type(), i.Y.Type(), i.Type())}
	case *ssa.FieldAddr:
		x.doFieldAddr(st, i)
	case *ssa.Field:
		v := x.val(st, i.X)
		st.regs[i] = Val{T: structField(i.X.Type(), x.term(st, v, i.X.Type()), i.Field)}
	case *ssa.IndexAddr:
		x.doIndexAddr(st, i)
	case *ssa.Index:
		x.doIndex(st, i)
	case *ssa.Lookup:
		x.doLookup(st, i)
	case *ssa.Slice:
		x.doSlice(st, i)
	case *ssa.MakeSlice:
		x.doMakeSlice(st, i)
	case *ssa.MakeMap:
		r := x.newRef(st, "map")
		mk := mapKey(i.Type())
		dk, vk := mapKeys(i.Type())
		_ = mk
		st.heap[dk] = Store(st.heapArr(dk, heapSorts[dk]), r, ConstArr(heapSorts[dk].ArrElem(), False))
		_ = vk
		st.regs[i] = Val{T: r}
	case *ssa.MakeChan:
		r := x.newRef(st, "chan")
		theU.DeclFunc("isext", SBool, SInt)
		st.add(Not(App("isext", SBool, r))) // made by the module, not handed in from outside
		theU.DeclFunc("chcap", SInt, SInt)
		st.add(Eq(App("chcap", SInt, r), x.term(st, x.val(st, i.Size), i.Size.Type()))) // buffer size
		st.heap[ghClosed] = Store(st.heapArr(ghClosed, heapSorts[ghClosed]), r, False)
		st.heap[ghSent] = Store(st.heapArr(ghSent, heapSorts[ghSent]), r, Zero)
		st.heap[ghRecvd] = Store(st.heapArr(ghRecvd, heapSorts[ghRecvd]), r, Zero)
		st.regs[i] = Val{T: r}
	case *ssa.MakeInterface:
		st.regs[i] = Val{T: x.makeIface(st, x.val(st, i.X), i.X.Type())}
	case *ssa.MakeClosure:
		r := x.newRef(st, "closure")
		fn := i.Fn.(*ssa.Function)
		theU.DeclFunc("fnof", SInt, SInt)
		st.add(Eq(App("fnof", SInt, r), x.fnRef(fn)))
		var binds []Val
		for _, b := range i.Bindings {
			binds = append(binds, x.val(st, b))
		}
		st.regs[i] = Val{T: r, Fn: fn, Binds: binds}
		if st.clos == nil {
			st.clos = map[string]Val{}
		}
		st.clos[r.Key()] = st.regs[i]
		if closureEscapes(i) {
			x.checkCapture(st, i, fn, binds)
		}
	case *ssa.ChangeType:
		st.regs[i] = x.val(st, i.X)
	case *ssa.ChangeInterface:
		st.regs[i] = x.val(st, i.X)
	case *ssa.Convert:
		st.regs[i] = Val{T: x.convert(st, i, x.val(st, i.X), i.X.Type(), i.Type())}
	case *ssa.TypeAssert:
		x.doTypeAssert(st, i)
	case *ssa.Extract:
		tv := x.val(st, i.Tuple)
		if i.Index < len(tv.Tup) {
			st.regs[i] = tv.Tup[i.Index]
		} else {
			x.unsupported("extract from non-tuple")
			st.regs[i] = Val{T: x.freshVar("extract", sortOfStatic(i.Type()))}
		}
	case *ssa.Phi:
		var pv ssa.Value
		for k, p := range i.Block().Preds {
			if p == st.prev {
				pv = i.Edges[k]
			}
		}
		if pv == nil {
			x.unsupported("phi without matching predecessor")
			st.regs[i] = Val{T: x.freshVar("phi", sortOfStatic(i.Type()))}
		} else {
			st.regs[i] = x.val(st, pv)
		}
	case *ssa.Call:
		if callee := x.inlinable(st, i.Common()); callee != nil {
			return x.inlineCall(st, i, callee)
		}
		return x.doCall(st, i, i.Common(), i)
	case *ssa.Go:
		x.doGo(st, i)
	case *ssa.Defer:
		var args []Val
		for _, a := range i.Call.Args {
			args = append(args, x.val(st, a))
		}
		d := deferred{call: &i.Call, site: i, args: args}
		if !i.Call.IsInvoke() {
			d.fnv = x.val(st, i.Call.Value)
		} else {
			d.fnv = x.val(st, i.Call.Value)
		}
		st.defers = append(st.defers, d)
	case *ssa.RunDefers:
		ds := st.defers
		st.defers = nil
		for k := len(ds) - 1; k >= 0; k-- {
			x.applyCall(st, ds[k].site, ds[k].call, ds[k].fnv, ds[k].args, nil)
		}
	case *ssa.Send:
		x.doSend(st, i, x.val(st, i.Chan), x.val(st, i.X), i.Chan, i.X.Type())
	case *ssa.Select:
		return x.doSelect(st, i)
	case *ssa.MapUpdate:
		x.doMapUpdate(st, i)
	case *ssa.Range:
		st.regs[i] = Val{T: x.term(st, x.val(st, i.X), i.X.Type())}
	case *ssa.Next:
		x.doNext(st, i)
	case *ssa.If:
		return x.doIf(st, i)
	case *ssa.Jump:
		nb := i.Block().Succs[0]
		st.prev = i.Block()
		x.run(st, nb)
		return false
	case *ssa.Return:
		if len(st.inl) > 0 {
			x.inlineReturn(st, i)
			return false
		}
		x.doReturn(st, i)
		return false
	case *ssa.Panic:
		// explicit panic: a documented panic of the API; the path ends here
		x.deadEnds++
		x.endPath()
		return false
	default:
		x.unsupported(fmt.Sprintf("instruction %T", in))
		if v, ok := in.(ssa.Value); ok {
			st.regs[v] = Val{T: x.freshVar("unsup", sortOfStatic(v.Type()))}
		}
	}
	return true
}

func (x *Exec) doIf(st *State, i *ssa.If) bool {
	c := x.term(st, x.val(st, i.Cond), i.Cond.Type())
	b := i.Block()
	tb, fb := b.Succs[0], b.Succs[1]
	if c.IsTrue() {
		st.prev = b
		x.run(st, tb)
		return false
	}
	if c.IsFalse() {
		st.prev = b
		x.run(st, fb)
		return false
	}
	s2 := st.clone()
	st.add(c)
	st.trail = append(st.trail, fmt.Sprintf("%d→%d", b.Index, tb.Index))
	st.prev = b
	x.run(st, tb)
	s2.add(Not(c))
	s2.trail = append(s2.trail, fmt.Sprintf("%d→%d", b.Index, fb.Index))
	s2.prev = b
	x.run(s2, fb)
	return false
}

func (x *Exec) doAlloc(st *State, a *ssa.Alloc) {
	t := derefType(a.Type())
	if !x.heapCls[a] {
		st.cells[a] = zeroOf(t)
		st.seq++
		st.cellSeq[a] = st.seq
		st.regs[a] = Val{Addr: &Addr{Root: rCell, Cell: a, Ty: t}}
		return
	}
	r := x.newRef(st, a.Comment)
	st.objOf[a] = r
	switch u := t.Underlying().(type) {
	case *types.Struct:
		x.storeStructRef(st, r, t, zeroOf(t))
		st.regs[a] = Val{T: r}
	case *types.Array:
		k := regHeap("E$"+sortNameOfType(u.Elem()), ArrSort(SInt, ArrSort(SInt, sortOfStatic(u.Elem()))))
		st.heap[k] = Store(st.heapArr(k, heapSorts[k]), r, ConstArr(ArrSort(SInt, sortOfStatic(u.Elem())), zeroOf(u.Elem())))
		st.regs[a] = Val{T: r}
	default:
		k := regHeap("M$"+sortNameOfType(t), ArrSort(SInt, sortOfStatic(t)))
		st.heap[k] = Store(st.heapArr(k, heapSorts[k]), r, zeroOf(t))
		st.regs[a] = Val{T: r}
	}
}

func (x *Exec) nilCheck(st *State, in ssa.Instruction, p *Term, what string) {
	if !x.full {
		return
	}
	x.oblige(st, "nil", fmt.Sprintf("#%d", x.ordinal("nil", in)), Neq(p, Zero), in.Pos(), "non-nil "+what)
}

func (x *Exec) doStore(st *State, s *ssa.Store) {
	pv := x.val(st, s.Addr)
	v := x.val(st, s.Val)
	vt := x.term(st, v, s.Val.Type())
	et := derefType(s.Addr.Type())
	if a := x.ptrAddr(st, pv, s.Addr.Type()); a != nil {
		if a.Root != rCell && a.Root != rGlobal && pv.Addr == nil {
			x.nilCheck(st, s, pv.T, "pointer in store")
		}
		x.store(st, a, vt)
		return
	}
	// whole struct / array through a reference
	x.nilCheck(st, s, pv.T, "pointer in store")
	switch u := et.Underlying().(type) {
	case *types.Struct:
		x.storeStructRef(st, pv.T, et, vt)
	case *types.Array:
		k := regHeap("E$"+sortNameOfType(u.Elem()), ArrSort(SInt, ArrSort(SInt, sortOfStatic(u.Elem()))))
		st.heap[k] = Store(st.heapArr(k, heapSorts[k]), pv.T, vt)
	}
}

func (x *Exec) doUnOp(st *State, u *ssa.UnOp) {
	xv := x.val(st, u.X)
	switch u.Op {
	case token.MUL:
		et := derefType(u.X.Type())
		if a := x.ptrAddr(st, xv, u.X.Type()); a != nil {
			if a.Root != rCell && a.Root != rGlobal && xv.Addr == nil {
				x.nilCheck(st, u, xv.T, "pointer in load")
			}
			v := x.load(st, a)
			if gl, ok := u.X.(*ssa.Global); ok && stdlibNonNil[gl.String()] {
				st.add(Neq(v, Zero)) // assumed: nobody resets the standard library's variable
				x.extUsed["variable "+gl.String()+" (assumed non-nil)"] = true
			}
			if a.Root == rElem && a.SlOff != nil && len(a.Path) == 0 {
				// name the element through the slice-element function too (trigger for quantified facts)
				sgetTerm(st, Select(st.heapArr(a.Key, heapSorts[a.Key]), a.Base), a.SlOff, a.SlIdx)
			}
			if a.Root != rCell {
				x.enterFacts(st, v, et)
				// a value read from a heap array that is unchanged since entry existed at entry
				if arr, ok := st.heap[a.Key]; ok && arr.Op == "var" && strings.HasSuffix(arr.Val, "@0") && x.entry != nil {
					saved := st.ghost["top"]
					st.ghost["top"] = x.entry.ghostInt("top")
					x.allocFacts(st, v, et)
					st.ghost["top"] = saved
				}
			}
			st.regs[u] = Val{T: v}
			return
		}
		x.nilCheck(st, u, xv.T, "pointer in load")
		switch at := et.Underlying().(type) {
		case *types.Struct:
			v := x.loadStructRef(st, xv.T, et)
			x.enterFacts(st, v, et)
			st.regs[u] = Val{T: v}
		case *types.Array:
			k := regHeap("E$"+sortNameOfType(at.Elem()), ArrSort(SInt, ArrSort(SInt, sortOfStatic(at.Elem()))))
			st.regs[u] = Val{T: Select(st.heapArr(k, heapSorts[k]), xv.T)}
		}
	case token.NOT:
		st.regs[u] = Val{T: Not(x.term(st, xv, u.X.Type()))}
	case token.SUB:
		t := x.term(st, xv, u.X.Type())
		if t.Sort == SReal {
			st.regs[u] = Val{T: Neg(t)}
		} else {
			st.regs[u] = Val{T: x.fitInt(st, u, Neg(t), u.Type(), "neg")}
		}
	case token.XOR:
		t := x.term(st, xv, u.X.Type())
		// ^x = -x-1 for signed; for unsigned max-x
		if b, ok := u.Type().Underlying().(*types.Basic); ok {
			if lo, hi, ok := intRange(b); ok && lo.Sign() == 0 {
				st.regs[u] = Val{T: Sub(BigLit(hi), t)}
				return
			}
		}
		st.regs[u] = Val{T: Sub(Neg(t), One)}
	case token.ARROW:
		x.doRecv(st, u, xv, u.X, u.CommaOk)
	default:
		x.unsupported("unop " + u.Op.String())
		st.regs[u] = Val{T: x.freshVar("unop", sortOfStatic(u.Type()))}
	}
}

// fitInt: the mathematical result e of an integer operation of Go type t. Under contract the
// no-overflow obligation is generated (unless the contract says the function wraps); in the
// sweep the exact wrapped value is used.
func (x *Exec) fitInt(st *State, in ssa.Instruction, e *Term, t types.Type, what string) *Term {
	b, ok := t.Underlying().(*types.Basic)
	if !ok {
		return e
	}
	lo, hi, ok := intRange(b)
	if !ok {
		return e
	}
	if v, isLit := e.IntVal(); isLit && v.Cmp(lo) >= 0 && v.Cmp(hi) <= 0 {
		return e
	}
	if x.full && x.ct != nil && !x.ct.Wraps && !x.ct.NoOvf && !(x.ct.WrapsUnsigned && lo.Sign() == 0) {
		x.oblige(st, "ovf", fmt.Sprintf("#%d", x.ordinal("ovf", in)), And(Le(BigLit(lo), e), Le(e, BigLit(hi))), in.Pos(),
			"no overflow in "+what+" of type "+t.String())
		return e
	}
	return wrapTerm(e, lo, hi)
}

func wrapTerm(e *Term, lo, hi *big.Int) *Term {
	if lo.Sign() == 0 {
		return App("uwrap", SInt, e, BigLit(new(big.Int).Add(hi, big.NewInt(1))))
	}
	return App("wrap", SInt, e, Zero, BigLit(new(big.Int).Add(hi, big.NewInt(1))))
}

func isFloatT(t types.Type) bool {
	b, ok := t.Underlying().(*types.Basic)
	return ok && b.Info()&types.IsFloat != 0
}
func isIntT(t types.Type) bool {
	b, ok := t.Underlying().(*types.Basic)
	return ok && b.Info()&types.IsInteger != 0
}
func isStringT(t types.Type) bool {
	b, ok := t.Underlying().(*types.Basic)
	return ok && b.Info()&types.IsString != 0
}

func (x *Exec) floatOp(st *State, op string, a, b *Term) *Term {
	var exact *Term
	switch op {
	case "fadd":
		exact = Add(a, b)
	case "fsub":
		exact = Sub(a, b)
	case "fmul":
		exact = Mul(a, b)
	case "fdiv":
		exact = RDiv(a, b)
	}
	r := App(op, SReal, a, b)
	// IEEE-754 binary64, round to nearest, normal range: relative error at most 2^-53
	u := RealLit("1/9007199254740992")
	st.add(Le(App("absr", SReal, Sub(r, exact)), Mul(App("absr", SReal, exact), u)))
	// sign and zero preservation
	st.add(Implies(Ge(exact, RealLit("0")), Ge(r, RealLit("0"))), Implies(Le(exact, RealLit("0")), Le(r, RealLit("0"))))
	return r
}

func (x *Exec) binop(st *State, in ssa.Instruction, op token.Token, xv, yv Val, xt, yt, rt types.Type) *Term {
	a := x.term(st, xv, xt)
	b := x.term(st, yv, yt)
	switch op {
	case token.EQL:
		return x.eqTerm(a, b, xt)
	case token.NEQ:
		return Not(x.eqTerm(a, b, xt))
	case token.LSS, token.LEQ, token.GTR, token.GEQ:
		if a.Sort == SStr {
			theU.DeclFunc("strlt", SBool, SStr, SStr)
			switch op {
			case token.LSS:
				return App("strlt", SBool, a, b)
			case token.GTR:
				return App("strlt", SBool, b, a)
			case token.LEQ:
				return Not(App("strlt", SBool, b, a))
			default:
				return Not(App("strlt", SBool, a, b))
			}
		}
		switch op {
		case token.LSS:
			return Lt(a, b)
		case token.LEQ:
			return Le(a, b)
		case token.GTR:
			return Gt(a, b)
		}
		return Ge(a, b)
	case token.LAND:
		return And(a, b)
	case token.LOR:
		return Or(a, b)
	}
	if isStringT(rt) && op == token.ADD {
		return x.concat(st, a, b)
	}
	if isFloatT(rt) {
		switch op {
		case token.ADD:
			return x.floatOp(st, "fadd", a, b)
		case token.SUB:
			return x.floatOp(st, "fsub", a, b)
		case token.MUL:
			return x.floatOp(st, "fmul", a, b)
		case token.QUO:
			if x.full {
				x.oblige(st, "fdiv0", fmt.Sprintf("#%d", x.ordinal("fdiv0", in)), Neq(b, RealLit("0")), in.Pos(), "float divisor is non-zero (no Inf/NaN)")
			}
			return x.floatOp(st, "fdiv", a, b)
		}
	}
	switch op {
	case token.ADD:
		return x.fitInt(st, in, Add(a, b), rt, "+")
	case token.SUB:
		return x.fitInt(st, in, Sub(a, b), rt, "-")
	case token.MUL:
		return x.fitInt(st, in, Mul(a, b), rt, "*")
	case token.QUO:
		x.oblige(st, "div0", fmt.Sprintf("#%d", x.ordinal("div0", in)), Neq(b, Zero), in.Pos(), "integer divisor is non-zero")
		return x.fitInt(st, in, App("tdiv", SInt, a, b), rt, "/")
	case token.REM:
		x.oblige(st, "div0", fmt.Sprintf("#%d", x.ordinal("div0", in)), Neq(b, Zero), in.Pos(), "integer divisor is non-zero")
		return App("tmod", SInt, a, b)
	case token.SHL:
		if n, ok := b.IntVal(); ok && n.IsInt64() && n.Int64() < 64 {
			return x.fitInt(st, in, Mul(a, BigLit(pow2(uint(n.Int64())))), rt, "<<")
		}
		if av, ok := a.IntVal(); ok && av.Sign() > 0 {
			// c << y: power function, abstracted
			theU.DeclFunc("shl", SInt, SInt, SInt)
			r := App("shl", SInt, a, b)
			st.add(Ge(r, Zero))
			return r
		}
	case token.SHR:
		if n, ok := b.IntVal(); ok && n.IsInt64() && n.Int64() < 64 {
			return App("div", SInt, a, BigLit(pow2(uint(n.Int64()))))
		}
	case token.AND:
		if r := bitAnd(a, b); r != nil {
			return r
		}
	case token.OR:
		theU.DeclFunc("bitor", SInt, SInt, SInt)
		r := App("bitor", SInt, a, b)
		st.add(Ge(r, Zero))
		return r
	case token.AND_NOT:
		theU.DeclFunc("bitandnot", SInt, SInt, SInt)
		return App("bitandnot", SInt, a, b)
	}
	theU.DeclFunc("binop_"+sanitize(op.String()), sortOfStatic(rt), a.Sort, b.Sort)
	r := App("binop_"+sanitize(op.String()), sortOfStatic(rt), a, b)
	if rt != nil {
		st.add(rangeFacts(r, rt)...)
	}
	return r
}

// bitAnd with a constant mask: exact in linear arithmetic.
func bitAnd(a, b *Term) *Term {
	m, ok := b.IntVal()
	v := a
	if !ok {
		m, ok = a.IntVal()
		v = b
	}
	if ok && m.Sign() >= 0 && m.BitLen() <= 16 {
		var sum *Term = Zero
		for i := 0; i < m.BitLen(); i++ {
			if m.Bit(i) == 1 {
				p := BigLit(pow2(uint(i)))
				bit := App("mod", SInt, App("div", SInt, v, p), IntLit(2))
				sum = Add(sum, Mul(bit, p))
			}
		}
		return sum
	}
	theU.DeclFunc("bitand", SInt, SInt, SInt)
	return App("bitand", SInt, a, b)
}

func (x *Exec) eqTerm(a, b *Term, t types.Type) *Term {
	if _, ok := t.Underlying().(*types.Slice); ok && !isByteSlice(t) {
		// only comparison with nil is legal Go
		if b.Key() == zeroOf(t).Key() {
			return Eq(sliceAcc(a, 0), Zero)
		}
		if a.Key() == zeroOf(t).Key() {
			return Eq(sliceAcc(b, 0), Zero)
		}
	}
	return Eq(a, b)
}

func (x *Exec) concat(st *State, a, b *Term) *Term {
	if a.Key() == strEmpty.Key() {
		return b
	}
	if b.Key() == strEmpty.Key() {
		return a
	}
	if a.Op == "sconcat" {
		// canonical right-nested form, so that associativity needs no axiom
		return x.concat(st, a.Args[0], x.concat(st, a.Args[1], b))
	}
	c := App("sconcat", SStr, a, b)
	st.add(Eq(App("slen", SInt, c), Add(App("slen", SInt, a), App("slen", SInt, b))))
	st.add(Eq(App("dw", SInt, c), Add(App("dw", SInt, a), App("dw", SInt, b))))
	x.strFacts(st, a)
	x.strFacts(st, b)
	return c
}

func (x *Exec) strFacts(st *State, s *Term) {
	if s.Op == "var" && strings.HasPrefix(s.Val, "str!") {
		return
	}
	if strings.Contains(s.Key(), "bv!") {
		return // under a binder: the quantified prelude axioms apply
	}
	st.add(Ge(App("slen", SInt, s), Zero), Ge(App("dw", SInt, s), Zero))
	st.add(Eq(Eq(App("slen", SInt, s), Zero), Eq(s, strEmpty)))
	st.add(Implies(Eq(s, strEmpty), Eq(App("dw", SInt, s), Zero)))
}

func (x *Exec) slenOf(st *State, s *Term) *Term {
	x.strFacts(st, s)
	return App("slen", SInt, s)
}

func (x *Exec) convert(st *State, in ssa.Instruction, v Val, from, to types.Type) *Term {
	t := x.term(st, v, from)
	switch {
	case isIntT(from) && isIntT(to):
		b := to.Underlying().(*types.Basic)
		lo, hi, ok := intRange(b)
		if !ok {
			return t
		}
		fb := from.Underlying().(*types.Basic)
		if flo, fhi, ok := intRange(fb); ok && flo.Cmp(lo) >= 0 && fhi.Cmp(hi) <= 0 {
			return t
		}
		if x.full && x.ct != nil && !x.ct.Wraps && !x.ct.NoOvf {
			x.oblige(st, "conv", fmt.Sprintf("#%d", x.ordinal("conv", in)), And(Le(BigLit(lo), t), Le(t, BigLit(hi))), in.Pos(),
				fmt.Sprintf("conversion %s -> %s keeps the value", from, to))
			return t
		}
		return wrapTerm(t, lo, hi)
	case isIntT(from) && isFloatT(to):
		return x.i2f(st, t)
	case isFloatT(from) && isIntT(to):
		r := App("ftrunc", SInt, t)
		if b, ok := to.Underlying().(*types.Basic); ok {
			if lo, hi, ok := intRange(b); ok {
				if x.full && x.ct != nil && !x.ct.NoOvf {
					x.oblige(st, "conv", fmt.Sprintf("#%d", x.ordinal("conv", in)), And(Le(BigLit(lo), r), Le(r, BigLit(hi))), in.Pos(),
						fmt.Sprintf("conversion %s -> %s is in range", from, to))
				} else {
					nr := x.freshVar("f2i", SInt)
					st.add(Implies(And(Le(BigLit(lo), r), Le(r, BigLit(hi))), Eq(nr, r)))
					st.add(rangeFacts(nr, to)...)
					return nr
				}
			}
		}
		return r
	case isFloatT(from) && isFloatT(to):
		return t
	case isStringT(to) && (isByteSlice(from) || isStringT(from)):
		return t
	case isByteSlice(to) && isStringT(from):
		return t
	case isStringT(to) && isIntT(from):
		theU.DeclFunc("runestr", SStr, SInt)
		return App("runestr", SStr, t)
	}
	if sortOfStatic(from) == sortOfStatic(to) {
		return t
	}
	x.unsupported(fmt.Sprintf("convert %s -> %s", from, to))
	return x.freshVar("conv", sortOfStatic(to))
}

func (x *Exec) i2f(st *State, t *Term) *Term {
	if _, ok := t.IntVal(); ok {
		return ToReal(t)
	}
	lim := BigLit(pow2(53))
	r := App("i2f", SReal, t)
	exact := ToReal(t)
	u := RealLit("1/9007199254740992")
	st.add(Implies(Le(App("absi", SInt, t), lim), Eq(r, exact)))
	st.add(Le(App("absr", SReal, Sub(r, exact)), Mul(App("absr", SReal, exact), u)))
	st.add(Implies(Ge(t, Zero), Ge(r, RealLit("0"))))
	st.add(Implies(Gt(t, Zero), Ge(r, RealLit("1"))), Implies(Lt(t, Zero), Le(r, RealLit("-1"))))
	return r
}

func (x *Exec) doFieldAddr(st *State, f *ssa.FieldAddr) {
	bv := x.val(st, f.X)
	stT := derefType(f.X.Type())
	if bv.Addr != nil {
		st.regs[f] = Val{Addr: bv.Addr.withPath(PathEl{Field: f.Field, StructTy: stT})}
		return
	}
	x.nilCheck(st, f, bv.T, "struct pointer in field access ."+stT.Underlying().(*types.Struct).Field(f.Field).Name())
	k := regHeap(fieldKey(stT, f.Field), heapSortField(stT, f.Field))
	st.regs[f] = Val{Addr: &Addr{Root: rField, Key: k, Base: bv.T, Ty: stT.Underlying().(*types.Struct).Field(f.Field).Type()}}
}

func (x *Exec) boundsCheck(st *State, in ssa.Instruction, idx, n *Term, what string) {
	x.oblige(st, "idx", fmt.Sprintf("#%d", x.ordinal("idx", in)), And(Le(Zero, idx), Lt(idx, n)), in.Pos(), "index in range: "+what)
}

func (x *Exec) doIndexAddr(st *State, ia *ssa.IndexAddr) {
	bv := x.val(st, ia.X)
	idx := x.term(st, x.val(st, ia.Index), ia.Index.Type())
	switch u := ia.X.Type().Underlying().(type) {
	case *types.Pointer: // pointer to array
		at := u.Elem().Underlying().(*types.Array)
		x.boundsCheck(st, ia, idx, IntLit(at.Len()), "array")
		if bv.Addr != nil {
			st.regs[ia] = Val{Addr: bv.Addr.withPath(PathEl{Field: -1, Index: idx, ArrTy: u.Elem()})}
			return
		}
		k := regHeap("E$"+sortNameOfType(at.Elem()), ArrSort(SInt, ArrSort(SInt, sortOfStatic(at.Elem()))))
		st.regs[ia] = Val{Addr: &Addr{Root: rElem, Key: k, Base: bv.T, Idx: idx, Ty: at.Elem()}}
	case *types.Slice:
		sv := x.term(st, bv, ia.X.Type())
		if isByteSlice(ia.X.Type()) {
			x.unsupported("address of a byte-slice element")
			st.regs[ia] = Val{T: x.freshVar("byteaddr", SInt)}
			return
		}
		x.boundsCheck(st, ia, idx, sliceAcc(sv, 2), "slice")
		k := regHeap("E$"+sortNameOfType(u.Elem()), ArrSort(SInt, ArrSort(SInt, sortOfStatic(u.Elem()))))
		st.regs[ia] = Val{Addr: &Addr{Root: rElem, Key: k, Base: sliceAcc(sv, 0), Idx: Add(sliceAcc(sv, 1), idx), Ty: u.Elem(),
			SlOff: sliceAcc(sv, 1), SlIdx: idx}}
	default:
		x.unsupported(fmt.Sprintf("IndexAddr on %s", ia.X.Type()))
		st.regs[ia] = Val{T: x.freshVar("idxaddr", SInt)}
	}
}

func (x *Exec) doIndex(st *State, i *ssa.Index) {
	bv := x.term(st, x.val(st, i.X), i.X.Type())
	idx := x.term(st, x.val(st, i.Index), i.Index.Type())
	switch u := i.X.Type().Underlying().(type) {
	case *types.Array:
		x.boundsCheck(st, i, idx, IntLit(u.Len()), "array")
		st.regs[i] = Val{T: Select(bv, idx)}
	default:
		if bv.Sort == SStr {
			x.boundsCheck(st, i, idx, x.slenOf(st, bv), "string")
			theU.DeclFunc("sbyte", SInt, SStr, SInt)
			r := App("sbyte", SInt, bv, idx)
			st.add(Ge(r, Zero), Le(r, IntLit(255)))
			st.regs[i] = Val{T: r}
			return
		}
		x.unsupported(fmt.Sprintf("Index on %s", i.X.Type()))
		st.regs[i] = Val{T: x.freshVar("index", sortOfStatic(i.Type()))}
	}
}

// ---------------------------------------------------------------------------
// maps

func mapKey(t types.Type) string { return "MAP$" + sortNameOfType(t) }

func mapKeys(t types.Type) (dom, val string) {
	m := t.Underlying().(*types.Map)
	ks, vs := sortOfStatic(m.Key()), sortOfStatic(m.Elem())
	base := sanitize(string(ks)) + "$" + sanitize(string(vs))
	dom = regHeap("MD$"+base, ArrSort(SInt, ArrSort(ks, SBool)))
	val = regHeap("MV$"+base, ArrSort(SInt, ArrSort(ks, vs)))
	return
}

func (x *Exec) doLookup(st *State, l *ssa.Lookup) {
	xv := x.term(st, x.val(st, l.X), l.X.Type())
	k := x.term(st, x.val(st, l.Index), l.Index.Type())
	if m, ok := l.X.Type().Underlying().(*types.Map); ok {
		dk, vk := mapKeys(l.X.Type())
		present := Select(Select(st.heapArr(dk, heapSorts[dk]), xv), k)
		raw := Select(Select(st.heapArr(vk, heapSorts[vk]), xv), k)
		// a nil map reads as empty
		present = And(Neq(xv, Zero), present)
		v := Ite(present, raw, zeroOf(m.Elem()))
		x.enterFacts(st, raw, m.Elem())
		if l.CommaOk {
			st.regs[l] = Val{Tup: []Val{{T: v}, {T: present}}}
		} else {
			st.regs[l] = Val{T: v}
		}
		return
	}
	// string index
	x.boundsCheck(st, l, k, x.slenOf(st, xv), "string")
	theU.DeclFunc("sbyte", SInt, SStr, SInt)
	r := App("sbyte", SInt, xv, k)
	st.add(Ge(r, Zero), Le(r, IntLit(255)))
	st.regs[l] = Val{T: r}
}

func (x *Exec) doMapUpdate(st *State, m *ssa.MapUpdate) {
	mv := x.term(st, x.val(st, m.Map), m.Map.Type())
	k := x.term(st, x.val(st, m.Key), m.Key.Type())
	v := x.term(st, x.val(st, m.Value), m.Value.Type())
	x.oblige(st, "nilmap", fmt.Sprintf("#%d", x.ordinal("nilmap", m)), Neq(mv, Zero), m.Pos(), "assignment to entry in non-nil map")
	x.mapStore(st, m.Map.Type(), mv, k, v, true)
}

func (x *Exec) mapStore(st *State, mt types.Type, mv, k, v *Term, present bool) {
	dk, vk := mapKeys(mt)
	d := st.heapArr(dk, heapSorts[dk])
	st.heap[dk] = Store(d, mv, Store(Select(d, mv), k, BoolLit(present)))
	if present {
		vals := st.heapArr(vk, heapSorts[vk])
		st.heap[vk] = Store(vals, mv, Store(Select(vals, mv), k, v))
	}
}

func (x *Exec) doNext(st *State, n *ssa.Next) {
	rng := n.Iter.(*ssa.Range)
	tup := n.Type().(*types.Tuple)
	ok := x.freshVar("next_ok", SBool)
	if n.IsString {
		st.regs[n] = Val{Tup: []Val{{T: ok}, {T: x.freshVar("next_i", SInt)}, {T: x.freshVar("next_r", SInt)}}}
		return
	}
	mt := rng.X.Type()
	mv := x.term(st, x.val(st, rng), mt)
	m := mt.Underlying().(*types.Map)
	k := x.freshVar("next_k", sortOfStatic(m.Key()))
	dk, vk := mapKeys(mt)
	st.add(Implies(ok, And(Neq(mv, Zero), Select(Select(st.heapArr(dk, heapSorts[dk]), mv), k))))
	v := Select(Select(st.heapArr(vk, heapSorts[vk]), mv), k)
	x.enterFacts(st, k, m.Key())
	x.enterFacts(st, v, m.Elem())
	_ = tup
	st.regs[n] = Val{Tup: []Val{{T: ok}, {T: k}, {T: v}}}
}

// ---------------------------------------------------------------------------
// slices

func (x *Exec) elemKey(et types.Type) string {
	return regHeap("E$"+sortNameOfType(et), ArrSort(SInt, ArrSort(SInt, sortOfStatic(et))))
}

func (x *Exec) doSlice(st *State, s *ssa.Slice) {
	xv := x.val(st, s.X)
	var lo, hi, mx *Term
	if s.Low != nil {
		lo = x.term(st, x.val(st, s.Low), s.Low.Type())
	}
	if s.High != nil {
		hi = x.term(st, x.val(st, s.High), s.High.Type())
	}
	if s.Max != nil {
		mx = x.term(st, x.val(st, s.Max), s.Max.Type())
	}
	ord := fmt.Sprintf("#%d", x.ordinal("slc", s))
	switch u := s.X.Type().Underlying().(type) {
	case *types.Basic: // string
		str := x.term(st, xv, s.X.Type())
		n := x.slenOf(st, str)
		if lo == nil {
			lo = Zero
		}
		if hi == nil {
			hi = n
		}
		x.oblige(st, "slc", ord, And(Le(Zero, lo), Le(lo, hi), Le(hi, n)), s.Pos(), "string slice bounds")
		st.regs[s] = Val{T: x.substr(st, str, lo, hi)}
	case *types.Slice:
		if isByteSlice(s.X.Type()) {
			str := x.term(st, xv, s.X.Type())
			n := x.slenOf(st, str)
			if lo == nil {
				lo = Zero
			}
			if hi == nil {
				hi = n
			}
			// re-slicing a byte slice up to its capacity is not modelled: capacity == length
			x.oblige(st, "slc", ord, And(Le(Zero, lo), Le(lo, hi), Le(hi, n)), s.Pos(), "byte slice bounds (capacity modelled as length)")
			st.regs[s] = Val{T: x.substr(st, str, lo, hi)}
			return
		}
		sv := x.term(st, xv, s.X.Type())
		b, o, l, c := sliceAcc(sv, 0), sliceAcc(sv, 1), sliceAcc(sv, 2), sliceAcc(sv, 3)
		if lo == nil {
			lo = Zero
		}
		if hi == nil {
			hi = l
		}
		if mx == nil {
			mx = c
		}
		x.oblige(st, "slc", ord, And(Le(Zero, lo), Le(lo, hi), Le(hi, mx), Le(mx, c)), s.Pos(), "slice bounds")
		st.regs[s] = Val{T: mkSlice(b, Add(o, lo), Sub(hi, lo), Sub(mx, lo))}
	case *types.Pointer: // pointer to array
		at := u.Elem().Underlying().(*types.Array)
		n := IntLit(at.Len())
		if lo == nil {
			lo = Zero
		}
		if hi == nil {
			hi = n
		}
		if mx == nil {
			mx = n
		}
		x.oblige(st, "slc", ord, And(Le(Zero, lo), Le(lo, hi), Le(hi, mx), Le(mx, n)), s.Pos(), "array slice bounds")
		var base *Term
		if xv.Addr != nil {
			// array living in a cell or field: give it a fresh identity and copy the contents
			base = x.newRef(st, "arr")
			k := x.elemKey(at.Elem())
			st.heap[k] = Store(st.heapArr(k, heapSorts[k]), base, x.load(st, xv.Addr))
		} else {
			base = xv.T
		}
		if isByteSlice(s.Type()) {
			// a small byte array with literal contents (the lowering of append(b, ' ', '%'))
			if at.Len() <= 8 && s.Low == nil && s.High == nil {
				k := x.elemKey(at.Elem())
				arr := Select(st.heapArr(k, heapSorts[k]), base)
				lit := make([]byte, 0, at.Len())
				allLit := true
				for i := int64(0); i < at.Len(); i++ {
					if v, ok := Select(arr, IntLit(i)).IntVal(); ok && v.IsInt64() && v.Int64() >= 0 && v.Int64() < 256 {
						lit = append(lit, byte(v.Int64()))
					} else {
						allLit = false
					}
				}
				if allLit {
					st.regs[s] = Val{T: x.strConst(string(lit))}
					return
				}
			}
			hint := "bytes"
			if a, ok := s.X.(*ssa.Alloc); ok && a.Comment == "makeslice" && s.Low == nil {
				hint = mkBytesHint // make([]byte, constant): a slice of its own (see doMakeSlice)
			}
			r := x.freshVar(hint, SStr)
			st.add(Eq(App("slen", SInt, r), Sub(hi, lo)))
			st.regs[s] = Val{T: r}
			return
		}
		st.regs[s] = Val{T: mkSlice(base, lo, Sub(hi, lo), Sub(mx, lo))}
	default:
		x.unsupported(fmt.Sprintf("slice of %s", s.X.Type()))
		st.regs[s] = Val{T: x.freshVar("slice", sortOfStatic(s.Type()))}
	}
}

func (x *Exec) substr(st *State, s, lo, hi *Term) *Term {
	if lo.Key() == Zero.Key() && hi.Key() == App("slen", SInt, s).Key() {
		return s
	}
	theU.DeclFunc("substr", SStr, SStr, SInt, SInt)
	r := App("substr", SStr, s, lo, hi)
	st.add(Eq(App("slen", SInt, r), Sub(hi, lo)))
	st.add(Ge(App("dw", SInt, r), Zero), Le(App("dw", SInt, r), App("dw", SInt, s)))
	st.add(Eq(Eq(App("slen", SInt, r), Zero), Eq(r, strEmpty)))
	return r
}

const mkBytesHint = "mkbytes"

// standard-library variables a program does not reassign
var stdlibNonNil = map[string]bool{"io.Discard": true, "io.EOF": true, "os.Stdout": true, "os.Stderr": true}

// substState replaces a variable by a term in every register, local cell and heap array of the
// state (the path condition keeps talking about the old value).
func (st *State) substState(name string, by *Term) {
	m := map[string]*Term{name: by}
	var sv func(v Val) Val
	sv = func(v Val) Val {
		if v.T != nil {
			v.T = substVars(v.T, m)
		}
		if v.Tup != nil {
			nt := make([]Val, len(v.Tup))
			for i, e := range v.Tup {
				nt[i] = sv(e)
			}
			v.Tup = nt
		}
		return v
	}
	for k, v := range st.regs {
		st.regs[k] = sv(v)
	}
	for k, t := range st.cells {
		if t != nil {
			st.cells[k] = substVars(t, m)
		}
	}
	for k, t := range st.heap {
		if t != nil {
			st.heap[k] = substVars(t, m)
		}
	}
}

func (x *Exec) doMakeSlice(st *State, m *ssa.MakeSlice) {
	ln := x.term(st, x.val(st, m.Len), m.Len.Type())
	cp := x.term(st, x.val(st, m.Cap), m.Cap.Type())
	x.oblige(st, "mk", fmt.Sprintf("#%d", x.ordinal("mk", m)), And(Le(Zero, ln), Le(ln, cp)), m.Pos(), "make: 0 <= len <= cap")
	if isByteSlice(m.Type()) {
		// a byte slice is modelled by its contents; a freshly made one gets a name of its own, so
		// that a copy into it (calls.go) can replace every view of it held by this activation
		theU.DeclFunc("zeros", SStr, SInt)
		r := x.freshVar(mkBytesHint, SStr)
		st.add(Eq(r, App("zeros", SStr, ln)))
		st.add(Eq(App("slen", SInt, r), ln), Eq(App("dw", SInt, r), Zero), Eq(Eq(ln, Zero), Eq(r, strEmpty)))
		st.regs[m] = Val{T: r}
		return
	}
	et := m.Type().Underlying().(*types.Slice).Elem()
	base := x.newRef(st, "mkslice")
	k := x.elemKey(et)
	st.heap[k] = Store(st.heapArr(k, heapSorts[k]), base, ConstArr(ArrSort(SInt, sortOfStatic(et)), zeroOf(et)))
	st.regs[m] = Val{T: mkSlice(base, Zero, ln, cp)}
}

// appendSlice models append(s, t...) for non-byte slices: in place when capacity allows,
// otherwise a fresh array holding a copy; a quantifier-free encoding (the new array starts
// as a copy of the whole old backing array).
func (x *Exec) appendSlice(st *State, et types.Type, s, t *Term, tlen *Term, one *Term) *Term {
	k := x.elemKey(et)
	arr := st.heapArr(k, heapSorts[k])
	b, o, l, c := sliceAcc(s, 0), sliceAcc(s, 1), sliceAcc(s, 2), sliceAcc(s, 3)
	newLen := Add(l, tlen)
	fits := Le(newLen, c)
	fresh := x.newRef(st, "append")
	nb := Ite(fits, b, fresh)
	freshCap := x.freshVar("cap", SInt)
	st.add(Ge(freshCap, newLen), Le(freshCap, BigLit(pow2(62))))
	nc := Ite(fits, c, freshCap)
	contents := Select(arr, b)
	if one != nil {
		contents = Store(contents, Add(o, l), one)
		// the same fact in the vocabulary of the slice-element function (trigger for quantified
		// contract clauses about the elements)
		if !strings.Contains(contents.Key(), "bv!") {
			kv := Var("bv!a", SInt)
			name := "sget!" + sanitize(string(contents.Sort))
			if _, ok := theU.funcs[name]; ok {
				lhs := App(name, contents.Sort.ArrElem(), contents, o, kv)
				rhs := Ite(Eq(kv, l), one, App(name, contents.Sort.ArrElem(), Select(arr, b), o, kv))
				f := &Term{Op: "forall", Args: []*Term{kv, Eq(lhs, rhs)}, Sort: SBool}
				f.key = "(forall ((bv!a Int)) (! " + Eq(lhs, rhs).Key() + " :pattern (" + lhs.Key() + ")))"
				st.add(f)
			}
		}
	} else {
		// several elements: contents beyond the old length come from t (element-wise facts on demand)
		nw := x.freshVar("appended", contents.Sort)
		// prefix preserved for the indices the program can name is expressed with a quantifier
		iv := Var("bv!i", SInt)
		body := Implies(And(Le(Zero, iv), Lt(iv, Add(o, l))), Eq(Select(nw, iv), Select(contents, iv)))
		st.add(Forall([]*Term{iv}, body))
		tb, to := sliceAcc(t, 0), sliceAcc(t, 1)
		jv := Var("bv!j", SInt)
		body2 := Implies(And(Le(Zero, jv), Lt(jv, tlen)), Eq(Select(nw, Add(Add(o, l), jv)), Select(Select(arr, tb), Add(to, jv))))
		st.add(Forall([]*Term{jv}, body2))
		contents = nw
	}
	st.heap[k] = Store(arr, nb, contents)
	return mkSlice(nb, o, newLen, nc)
}

func Forall(vars []*Term, body *Term) *Term {
	var sb strings.Builder
	sb.WriteString("(forall (")
	for _, v := range vars {
		fmt.Fprintf(&sb, "(%s %s)", v.Val, v.Sort)
	}
	sb.WriteString(") ")
	// explicit triggers: applications of the slice-element function that mention every bound
	// variable (arithmetic inside inferred triggers defeats E-matching)
	var pats []string
	seen := map[string]bool{}
	var walk func(t *Term)
	walk = func(t *Term) {
		if strings.HasPrefix(t.Op, "sget!") {
			k := t.Key()
			all := true
			for _, v := range vars {
				if !strings.Contains(k, v.Val) {
					all = false
				}
			}
			if all && !seen[k] {
				seen[k] = true
				pats = append(pats, k)
			}
		}
		if t.Op == "forall" {
			return
		}
		for _, a := range t.Args {
			walk(a)
		}
	}
	walk(body)
	t := &Term{Op: "forall", Args: append(append([]*Term{}, vars...), body), Sort: SBool}
	if len(pats) > 0 {
		var ps strings.Builder
		for _, p := range pats {
			ps.WriteString(" :pattern (" + p + ")")
		}
		t.key = sb.String() + "(! " + body.Key() + ps.String() + "))"
	} else {
		t.key = sb.String() + body.Key() + ")"
	}
	return t
}

// sget: element i of a slice (array, offset) as an uninterpreted function with the defining
// axiom sget(a, o, i) = a[o+i]; quantified contract clauses index slices through it.
func sgetTerm(st *State, inner, off, idx *Term) *Term {
	name := "sget!" + sanitize(string(inner.Sort))
	if _, ok := theU.funcs[name]; !ok {
		theU.DeclFunc(name, inner.Sort.ArrElem(), inner.Sort, SInt, SInt)
		theU.funcAxioms[name] = fmt.Sprintf("(assert (forall ((a %s) (o Int) (i Int)) (! (= (%s a o i) (select a (+ o i))) :pattern ((%s a o i)))))\n", inner.Sort, name, name)
	}
	t := App(name, inner.Sort.ArrElem(), inner, off, idx)
	if !strings.Contains(idx.Key(), "bv!") && !strings.Contains(inner.Key(), "bv!") {
		st.add(Eq(t, Select(inner, Add(off, idx))))
	}
	return t
}

// ---------------------------------------------------------------------------
// interfaces

func (P *Program) typeTag(t types.Type) int {
	k := types.TypeString(t, nil)
	if n, ok := P.typeTags[k]; ok {
		return n
	}
	n := len(P.typeTags) + 1
	P.typeTags[k] = n
	P.tagTypes = append(P.tagTypes, t)
	return n
}

// tagByName: a type tag for an external concrete type the engine knows only by name.
func (P *Program) tagByName(name string) int {
	if n, ok := P.typeTags[name]; ok {
		return n
	}
	n := len(P.typeTags) + 1
	P.typeTags[name] = n
	P.tagTypes = append(P.tagTypes, types.Typ[types.UnsafePointer])
	return n
}

func (x *Exec) makeIface(st *State, v Val, t types.Type) *Term {
	if _, ok := t.Underlying().(*types.Interface); ok {
		return x.term(st, v, t)
	}
	inner := x.term(st, v, t)
	s := sortOfStatic(t)
	box := "box!" + sanitize(string(s))
	unbox := "unbox!" + sanitize(string(s))
	theU.DeclFunc(box, SInt, SInt, s)
	theU.DeclFunc(unbox, s, SInt)
	tag := IntLit(int64(x.P.typeTag(t)))
	r := App(box, SInt, tag, inner)
	if _, isPtr := t.Underlying().(*types.Pointer); isPtr {
		// a non-nil pointer in an interface is represented by the reference itself (every
		// reference has one dynamic type), so ghost state keyed by the object is shared
		r = Ite(Eq(inner, Zero), r, inner)
	}
	st.add(Eq(App("typeof", SInt, r), tag), Eq(App(unbox, s, r), inner), Gt(r, Zero))
	return r
}

func (x *Exec) unbox(i *Term, t types.Type) *Term {
	s := sortOfStatic(t)
	unbox := "unbox!" + sanitize(string(s))
	theU.DeclFunc(unbox, s, SInt)
	return App(unbox, s, i)
}

// hasType: the dynamic type of interface value i satisfies the asserted type.
func (x *Exec) hasType(st *State, i *Term, asserted types.Type) *Term {
	tag := App("typeof", SInt, i)
	if it, ok := asserted.Underlying().(*types.Interface); ok {
		name := "impl!" + sanitize(types.TypeString(asserted, nil))
		theU.DeclFunc(name, SBool, SInt)
		// known concrete types of the module
		for k, n := range x.P.typeTags {
			_ = k
			ct := x.P.tagTypes[n-1]
			impl := types.Implements(ct, it)
			st.add(Eq(App(name, SBool, IntLit(int64(n))), BoolLit(impl)))
		}
		return And(Neq(i, Zero), App(name, SBool, tag))
	}
	return And(Neq(i, Zero), Eq(tag, IntLit(int64(x.P.typeTag(asserted)))))
}

func (x *Exec) doTypeAssert(st *State, ta *ssa.TypeAssert) {
	iv := x.term(st, x.val(st, ta.X), ta.X.Type())
	ok := x.hasType(st, iv, ta.AssertedType)
	var res *Term
	if _, isIface := ta.AssertedType.Underlying().(*types.Interface); isIface {
		res = iv
	} else {
		res = x.unbox(iv, ta.AssertedType)
		// values entering from an interface satisfy their type invariant
		st.add(Implies(ok, And(rangeFacts(res, ta.AssertedType)...)))
		if _, isPtr := ta.AssertedType.Underlying().(*types.Pointer); isPtr {
			// a pointer in an interface is the reference itself, or the boxed nil pointer of
			// that type (makeIface)
			sPtr := sortOfStatic(ta.AssertedType)
			box := "box!" + sanitize(string(sPtr))
			theU.DeclFunc(box, SInt, SInt, sPtr)
			tag := IntLit(int64(x.P.typeTag(ta.AssertedType)))
			st.add(Implies(ok, Or(Eq(res, iv), And(Eq(res, Zero), Eq(iv, App(box, SInt, tag, Zero))))))
		}
	}
	if ta.CommaOk {
		okv := x.freshVar("ta_ok", SBool)
		st.add(Eq(okv, ok))
		st.regs[ta] = Val{Tup: []Val{{T: Ite(okv, res, zeroOf(ta.AssertedType))}, {T: okv}}}
		return
	}
	x.oblige(st, "ta", fmt.Sprintf("#%d", x.ordinal("ta", ta)), ok, ta.Pos(), "type assertion to "+types.TypeString(ta.AssertedType, nil)+" holds")
	st.regs[ta] = Val{T: res}
}


// closureEscapes: the closure value leaves the function that makes it (returned, stored in
// the heap, sent, converted, handed to another function) instead of being only called or
// spawned right here - then nobody else proves its preconditions about captured variables.
func closureEscapes(mc *ssa.MakeClosure) bool {
	if mc.Referrers() == nil {
		return false
	}
	var esc func(v ssa.Value, depth int) bool
	esc = func(v ssa.Value, depth int) bool {
		refs := v.Referrers()
		if refs == nil || depth > 3 {
			return false
		}
		for _, ref := range *refs {
			switch r := ref.(type) {
			case *ssa.Return, *ssa.Send, *ssa.MakeInterface:
				return true
			case *ssa.ChangeType:
				if esc(r, depth+1) {
					return true
				}
			case *ssa.Store:
				if r.Val != v {
					continue
				}
				if a, ok := r.Addr.(*ssa.Alloc); ok && !a.Heap {
					// a local: look at what is done with its loads
					if a.Referrers() != nil {
						for _, ar := range *a.Referrers() {
							if u, ok := ar.(*ssa.UnOp); ok && esc(u, depth+1) {
								return true
							}
						}
					}
					continue
				}
				return true
			case ssa.CallInstruction:
				if r.Common().Value == v {
					continue // called or spawned here
				}
				return true // passed as an argument
			case *ssa.Select:
				return true
			}
		}
		return false
	}
	return esc(mc, 0)
}

// checkCapture: the conjuncts of an escaping closure's preconditions that speak only about
// captured variables must hold where the closure is made.
func (x *Exec) checkCapture(st *State, mc *ssa.MakeClosure, callee *ssa.Function, binds []Val) {
	ct := x.P.Contracts[callee]
	if ct == nil || ct.Trusted {
		return
	}
	params := map[string]bool{}
	for _, p := range callee.Params {
		params[p.Name()] = true
	}
	free := map[string]bool{}
	for _, fv := range callee.FreeVars {
		free[fv.Name()] = true
	}
	n := 0
	for _, rq := range ct.Requires {
		for _, cj := range splitConj(rq.Expr) {
			if mentionsAny(cj, params) || !mentionsAny(cj, free) {
				continue
			}
			n++
			env := x.callEnv(st, st, callee, nil, nil, nil)
			x.bindFreeVars(st, env, callee, binds, env.binds)
			t := env.eval(cj)
			if env.err != nil {
				x.specError(cj, env.err)
				continue
			}
			x.oblige(st, "capture", fmt.Sprintf("#%d:%s:%d", x.ordinal("capture", mc), relName(callee), n), t.T, mc.Pos(),
				"what "+relName(callee)+" requires of its captured variables holds where the closure is made: "+cj.String())
		}
	}
}


// ---------------------------------------------------------------------------------------------
// Inline execution of small helpers that have no contract.
//
// A function of the module that is called statically, has no contract, no loop, no defer and
// no goroutine start and is small is executed inline, path by path, instead of being replaced
// by "inferred frame, unknown result". Extracting a few lines of a verified function into a
// helper therefore does not change what is proved about the caller.

type execCtx struct {
	fn      *ssa.Function
	ct      *Contract
	params  map[string]Val
	loops   []*Loop
	headOf  map[*ssa.BasicBlock]*Loop
	fresh   map[ssa.Value]bool
	heapCls map[*ssa.Alloc]bool
	shared  map[*ssa.Alloc]bool
}

type inlineFrame struct {
	call   *ssa.Call
	caller execCtx
	callee execCtx
	prev   *ssa.BasicBlock
	defers []deferred
}

func (x *Exec) saveCtx() execCtx {
	return execCtx{x.fn, x.ct, x.params, x.loops, x.headOf, x.fresh, x.heapCls, x.shared}
}

func (x *Exec) restoreCtx(c execCtx) {
	x.fn, x.ct, x.params, x.loops, x.headOf, x.fresh, x.heapCls, x.shared = c.fn, c.ct, c.params, c.loops, c.headOf, c.fresh, c.heapCls, c.shared
}

const inlineMaxInstrs = 80

func (x *Exec) inlinable(st *State, c *ssa.CallCommon) *ssa.Function {
	r, why := x.inlinableWhy(st, c)
	if os.Getenv("GOWP_DEBUG") == "inline" && r == nil && c.StaticCallee() != nil && fnInModule(c.StaticCallee()) && x.P.Contracts[c.StaticCallee()] == nil {
		fmt.Fprintf(os.Stderr, "not inlined: %s in %s: %s\n", c.StaticCallee().String(), x.fn.String(), why)
	}
	return r
}

func (x *Exec) inlinableWhy(st *State, c *ssa.CallCommon) (*ssa.Function, string) {
	f := x.inlinable0(st, c)
	return f, x.inlWhy
}

func (x *Exec) inlinable0(st *State, c *ssa.CallCommon) *ssa.Function {
	x.inlWhy = "shape"
	if c.IsInvoke() || len(st.inl) >= 2 {
		return nil
	}
	callee := c.StaticCallee()
	if callee == nil || callee.Blocks == nil || !fnInModule(callee) || callee.Synthetic != "" || callee == x.fn {
		return nil
	}
	if x.P.Contracts[callee] != nil || callee.Recover != nil || len(callee.FreeVars) > 0 {
		return nil
	}
	for _, fr := range st.inl {
		if fr.callee.fn == callee {
			return nil
		}
	}
	if len(x.P.Loops(callee)) > 0 {
		return nil
	}
	n := 0
	for _, b := range callee.Blocks {
		for _, in := range b.Instrs {
			n++
			switch in.(type) {
			case *ssa.Go, *ssa.Defer, *ssa.Select, *ssa.MakeClosure, *ssa.Panic:
				x.inlWhy = fmt.Sprintf("instruction %T", in)
				return nil
			}
		}
	}
	if n > inlineMaxInstrs {
		return nil
	}
	return callee
}

func (x *Exec) inlineCall(st *State, call *ssa.Call, callee *ssa.Function) bool {
	var args []Val
	for _, a := range call.Call.Args {
		args = append(args, x.val(st, a))
	}
	x.countCall(st, callRecordName(x.fn, call.Common()), args, call.Common())
	caller := x.saveCtx()
	x.fn, x.ct = callee, nil
	x.params = map[string]Val{}
	for i, p := range callee.Params {
		if i < len(args) {
			x.params[p.Name()] = args[i]
		}
	}
	x.loops, x.headOf = nil, map[*ssa.BasicBlock]*Loop{}
	x.fresh = freshValues(callee)
	x.classify()
	fr := &inlineFrame{call: call, caller: caller, callee: x.saveCtx(), prev: st.prev, defers: st.defers}
	st.inl = append(st.inl, fr)
	st.defers = nil
	st.prev = nil
	x.inlined[relName(callee)] = true
	x.run(st, callee.Blocks[0])
	x.restoreCtx(caller)
	return false // the rest of the caller has been executed from inside, once per return path
}

func (x *Exec) inlineReturn(st *State, r *ssa.Return) {
	fr := st.inl[len(st.inl)-1]
	st.inl = st.inl[:len(st.inl)-1]
	var res []Val
	for _, rv := range r.Results {
		res = append(res, x.val(st, rv))
	}
	x.restoreCtx(fr.caller)
	switch len(res) {
	case 0:
	case 1:
		st.regs[fr.call] = res[0]
	default:
		st.regs[fr.call] = Val{Tup: res}
	}
	// the call record carries the results like any other call
	name := callRecordName(x.fn, fr.call.Common())
	for i, v := range res {
		if v.T != nil {
			k := fmt.Sprintf("#ret$%s$%d", name, i)
			st.ghost[k] = v.T
		}
	}
	st.prev = fr.prev
	st.defers = fr.defers
	b := fr.call.Block()
	idx := -1
	for i, in := range b.Instrs {
		if in == ssa.Instruction(fr.call) {
			idx = i
		}
	}
	cont := true
	for i := idx + 1; i < len(b.Instrs) && cont; i++ {
		cont = x.step(st, b.Instrs[i])
	}
	x.restoreCtx(fr.callee)
}


// onlyInlined: an unexported function without contract whose every use is a static call from
// the module that the executor runs inline - it is verified in the context of its callers
// and not once more on its own with unknown arguments.
func (P *Program) onlyInlined(fn *ssa.Function) bool {
	if fn.Parent() != nil || token.IsExported(fn.Name()) || fn.Synthetic != "" || len(P.Loops(fn)) > 0 || fn.Recover != nil {
		return false
	}
	if fn.Name() == "init" || fn.Name() == "main" {
		return false
	}
	n := 0
	for _, b := range fn.Blocks {
		for _, in := range b.Instrs {
			n++
			switch in.(type) {
			case *ssa.Go, *ssa.Defer, *ssa.Select, *ssa.MakeClosure, *ssa.Panic:
				return false
			}
		}
	}
	if n > inlineMaxInstrs {
		return false
	}
	calls := 0
	for _, g := range P.ModFuncs {
		for _, b := range g.Blocks {
			for _, in := range b.Instrs {
				if c, ok := in.(*ssa.Call); ok && c.Call.StaticCallee() == fn {
					if g == fn || P.Contracts[g] == nil && !P.onlyInlinedShallow(g) {
						// called from a function that is itself swept standalone: fine, it is inlined there
					}
					calls++
					continue
				}
				for _, op := range in.Operands(nil) {
					if op != nil && *op != nil {
						if f, ok := (*op).(*ssa.Function); ok && f == fn {
							if ci, isCall := in.(ssa.CallInstruction); !isCall || ci.Common().StaticCallee() != fn {
								return false // used as a value, deferred or spawned
							}
							if _, isPlainCall := in.(*ssa.Call); !isPlainCall {
								return false
							}
						}
					}
				}
			}
		}
	}
	return calls > 0
}

func (P *Program) onlyInlinedShallow(g *ssa.Function) bool { return false }
