package main

// Per-function verification: initial state, contract binding, obligation generation.

import (
	"os"
	"runtime/debug"
	"fmt"
	"go/types"
	"sort"
	"strings"

	"golang.org/x/tools/go/ssa"
)

type FuncReport struct {
	Name         string
	Full         bool
	Obligations  []*Obligation
	Paths        int
	Capped       bool
	Unsupported  []string
	SpecErrors   []string
	Uncontracted []string
	Inlined      []string
	ExtUsed      []string
	IfaceUsed    []string
	TrustedUsed  []string
	Assumed      []string
	HavocAll     int
	DeadEnds     int
	Returns      int
	Loops        int
}

func (P *Program) VerifyFunc(fn *ssa.Function, ct *Contract, full bool, pathCap int, prop string) (rep *FuncReport) {
	x := &Exec{P: P, fn: fn, ct: ct, full: full, inputs: map[string]string{}, params: map[string]Val{}, pathCap: pathCap,
		closedChain: map[string]*Term{}, prop: prop}
	x.argTypes = map[string]types.Type{}
	x.extUsed = map[string]bool{}
	x.uncontracted = map[string]bool{}
	x.trustedUsed = map[string]bool{}
	x.ifaceUsed = map[string]bool{}
	x.inlined = map[string]bool{}
	rep = &FuncReport{Name: relName(fn), Full: full}
	defer func() {
		if r := recover(); r != nil {
			rep.Unsupported = append(rep.Unsupported, fmt.Sprintf("engine panic: %v", r))
			if os.Getenv("GOWP_DEBUG") == "panic" {
				fmt.Fprintf(os.Stderr, "engine panic in %s: %v\n%s\n", relName(fn), r, debug.Stack())
			}
			rep.Obligations = x.obs
			rep.Capped = true
		}
	}()
	x.classify()
	x.fresh = freshValues(fn)
	x.loops = P.Loops(fn)
	x.headOf = map[*ssa.BasicBlock]*Loop{}
	for _, l := range x.loops {
		x.headOf[l.Head] = l
	}
	st := newState()
	st.ghostInt("top")
	for _, p := range fn.Params {
		s := sortOfStatic(p.Type())
		v := Var("in_"+smtName(p.Name()), s)
		x.params[p.Name()] = Val{T: v}
		x.inputs[v.Val] = p.Name()
		x.enterFacts(st, v, p.Type())
	}
	for _, fv := range fn.FreeVars {
		t := derefType(fv.Type())
		v := Var("fv_"+smtName(fv.Name()), sortOfStatic(t))
		st.cells[fv] = v
		x.inputs[v.Val] = fv.Name()
		x.enterFacts(st, v, t)
	}
	x.entry = st.clone()
	x.entry.heap = st.heap // share lazily created initial arrays
	x.entry.ghost = map[string]*Term{}
	for k, v := range st.ghost {
		x.entry.ghost[k] = v
	}
	if ct != nil && full {
		// refinement of preconditions: a caller through the interface establishes only the
		// interface contract's preconditions; they must imply this method's own
		var inames []string
		for n := range ct.IfaceReq {
			inames = append(inames, n)
		}
		sort.Strings(inames)
		params := map[string]bool{}
		for _, p := range fn.Params {
			params[p.Name()] = true
		}
		for _, n := range inames {
			st0 := st.clone()
			for _, rq := range ct.IfaceReq[n] {
				if t, ok := x.evalSpec(st0, rq.Expr, "pre"); ok {
					st0.add(t)
				}
			}
			// conjuncts about captured variables only are the closure's own invariant,
			// established where it is made (capture obligations), not by the caller
			var toProve []*Expr
			var texts []string
			for _, rq := range ct.Requires {
				for _, cj := range splitConj(rq.Expr) {
					if mentionsAny(cj, params) || fn.Parent() == nil {
						toProve = append(toProve, cj)
						texts = append(texts, cj.String())
					} else if t, ok := x.evalSpec(st0, cj, "pre"); ok {
						st0.add(t)
					}
				}
			}
			for i, cj := range toProve {
				t, ok := x.evalSpec(st0, cj, "pre")
				if !ok {
					continue
				}
				x.oblige(st0, "refine", fmt.Sprintf("%s:%d", n, i+1), t, fn.Pos(), "the preconditions of "+n+" imply this implementation's precondition: "+texts[i])
			}
		}
	}
	if ct != nil {
		for _, rq := range ct.Requires {
			t, ok := x.evalSpec(st, rq.Expr, "pre")
			if ok {
				st.add(t)
			}
		}
		for _, rq := range ct.Assumes {
			t, ok := x.evalSpec(st, rq.Expr, "pre")
			if ok {
				st.add(t)
				x.assumedClauses = append(x.assumedClauses, relName(fn)+": "+rq.Text)
			}
		}
		// a clause tagged for a property the function is not verified under would never be proved
		tagCheck := func(cls []*Clause) {
			for _, cl := range cls {
				for _, pr := range cl.Props {
					if !hasProp(ct.Props, pr) {
						x.specErrs = append(x.specErrs, fmt.Sprintf("clause %q is tagged %s but the contract's props do not list it", cl.Label, pr))
					}
				}
			}
		}
		tagCheck(ct.Ensures)
		for _, cls := range ct.LoopInv {
			tagCheck(cls)
		}
		for _, cls := range ct.LoopEns {
			tagCheck(cls)
		}
		// bind check for loop clauses
		for n := range ct.LoopInv {
			if n < 1 || n > len(x.loops) {
				x.specErrs = append(x.specErrs, fmt.Sprintf("loop %d does not exist (function has %d loops)", n, len(x.loops)))
			}
		}
		for n := range ct.LoopDec {
			if n < 1 || n > len(x.loops) {
				x.specErrs = append(x.specErrs, fmt.Sprintf("loop %d does not exist (function has %d loops)", n, len(x.loops)))
			}
		}
	}
	// the entry snapshot must not see later heap updates: give it its own copy now
	eh := map[string]*Term{}
	for k, v := range st.heap {
		eh[k] = v
	}
	x.entry.heap = eh
	if full {
		// vacuity guard: the entry assumptions must be satisfiable
		x.obs = append(x.obs, &Obligation{Name: relName(fn) + "/cover", Fn: relName(fn), Kind: "cover", Pos: P.pos(fn.Pos()),
			Descr: "preconditions and type invariants are satisfiable (vacuity guard)", Assume: append([]*Term{}, st.assume...), Goal: False})
	}
	x.run(st, fn.Blocks[0])
	rep.Obligations = x.obs
	rep.Paths = x.paths
	rep.Capped = x.capped
	rep.Unsupported = x.unsup
	rep.SpecErrors = x.specErrs
	rep.Uncontracted = sortedKeys(x.uncontracted)
	rep.Inlined = sortedKeys(x.inlined)
	rep.ExtUsed = sortedKeys(x.extUsed)
	rep.IfaceUsed = sortedKeys(x.ifaceUsed)
	rep.TrustedUsed = sortedKeys(x.trustedUsed)
	rep.Assumed = x.assumedClauses
	rep.HavocAll = x.havocAllCount
	rep.DeadEnds = x.deadEnds
	rep.Returns = x.returns
	rep.Loops = len(x.loops)
	return rep
}

func sortedKeys(m map[string]bool) []string {
	var out []string
	for k := range m {
		out = append(out, k)
	}
	sort.Strings(out)
	return out
}

// mcall: a pure method of the module used inside a contract, e.g. s.completed(). The
// result is a fresh value constrained by the callee's own (verified) postconditions.
func (env *Env) mcall(e *Expr) SV {
	recv := env.eval(e.Args[0])
	if env.err != nil {
		return SV{T: True}
	}
	if recv.Ty == nil {
		return env.fail("method %s on untyped value", e.Name)
	}
	x := env.x
	var callee *ssa.Function
	for _, f := range x.P.ModFuncs {
		if f.Signature.Recv() == nil || f.Name() != e.Name {
			continue
		}
		rt := f.Signature.Recv().Type()
		if types.Identical(derefType(rt), derefType(recv.Ty)) {
			callee = f
		}
	}
	if callee == nil {
		return env.fail("no method %s on %s", e.Name, recv.Ty)
	}
	ct := x.P.Contracts[callee]
	if ct == nil || !ct.Pure {
		return env.fail("method %s used in a contract must have a pure contract", relName(callee))
	}
	// receiver by value vs by pointer
	rv := recv
	wantPtr := false
	if _, ok := callee.Signature.Recv().Type().Underlying().(*types.Pointer); ok {
		wantPtr = true
	}
	_, havePtr := recv.Ty.Underlying().(*types.Pointer)
	if !wantPtr && havePtr {
		bt := derefType(recv.Ty)
		rv = SV{T: x.loadStructRef(env.st, recv.T, bt), Ty: bt}
	}
	args := []Val{{T: rv.T}}
	names := []string{callee.Params[0].Name()}
	tys := []types.Type{callee.Params[0].Type()}
	if wantPtr && !havePtr {
		// a struct value used as the receiver of a pointer method (the compiler takes the
		// address of the variable): the contract's `s.f` reads the fields of that value
		tys[0] = recv.Ty
	}
	for i, a := range e.Args[1:] {
		av := env.eval(a)
		args = append(args, Val{T: av.T})
		names = append(names, callee.Params[i+1].Name())
		tys = append(tys, callee.Params[i+1].Type())
	}
	// memoise per (callee, argument terms): a pure function of its arguments
	key := "pure$" + relName(callee)
	for _, a := range args {
		key += "$" + a.T.Key()
	}
	rt := callee.Signature.Results().At(0).Type()
	if m, ok := x.pureMemo[key]; ok && !(wantPtr && havePtr) {
		env.st.add(m.facts...)
		return SV{T: m.r, Ty: rt}
	}
	r := x.freshVar("pure_"+callee.Name(), sortOfStatic(rt))
	var facts []*Term
	facts = append(facts, rangeFacts(r, rt)...)
	cenv := x.callEnv(env.st, env.st, callee, names, tys, args)
	cenv.binds["result"] = specBinding{Val{T: r}, rt}
	cenv.binds["result0"] = specBinding{Val{T: r}, rt}
	for _, en := range ct.Ensures {
		if en.inactive(x.prop) {
			continue // not proved in this run, so not assumed in it
		}
		t := cenv.eval(en.Expr)
		if cenv.err != nil {
			return env.fail("in contract of %s: %v", relName(callee), cenv.err)
		}
		facts = append(facts, t.T)
	}
	env.st.add(facts...)
	if x.pureMemo == nil {
		x.pureMemo = map[string]pureMemo{}
	}
	x.pureMemo[key] = pureMemo{r, facts}
	return SV{T: r, Ty: rt}
}

type pureMemo struct {
	r     *Term
	facts []*Term
}

func describeContract(ct *Contract) string {
	var sb strings.Builder
	for _, r := range ct.Requires {
		fmt.Fprintf(&sb, "requires %s; ", r.Text)
	}
	for _, r := range ct.Ensures {
		fmt.Fprintf(&sb, "ensures %s; ", r.Text)
	}
	return sb.String()
}


// splitConj: the top-level conjuncts of a contract expression.
func splitConj(e *Expr) []*Expr {
	if e != nil && e.Kind == "binary" && e.Name == "&&" && len(e.Args) == 2 {
		return append(splitConj(e.Args[0]), splitConj(e.Args[1])...)
	}
	return []*Expr{e}
}

func mentionsAny(e *Expr, names map[string]bool) bool {
	if e == nil {
		return false
	}
	if e.Kind == "ident" && names[e.Name] {
		return true
	}
	for _, a := range e.Args {
		if mentionsAny(a, names) {
			return true
		}
	}
	return false
}
