package main

// Published state (C10): `published Bar.bs mutable shutdown` declares that the object stored
// in the pointer field Bar.bs is visible to several goroutines from the moment it is stored.
// Two static obligations per declaration, computed on SSA with a flow-insensitive taint of
// "pointer to the published object" through locals, closures and static callees:
//
//   static/published-writes:<S.f>   no function of the module writes a field of the published
//                                   object outside the mutable set through a pointer read back
//                                   from S.f (the function that publishes wrote before storing)
//   static/published-reads:<method> an exported method of *S - callable from any goroutine -
//                                   reads through S.f only frozen fields; copying the whole
//                                   struct (value receiver, `*p`) reads every field
//
// The late writer (an unexported function reading S.f) may read and write the mutable fields;
// that there is one of it at a time is the caller's serialisation, stated as an assumption.

import (
	"fmt"
	"go/token"
	"go/types"
	"sort"
	"strings"

	"golang.org/x/tools/go/ssa"
)

type pubAccess struct {
	reads, writes map[string]token.Pos // field name ("*" = whole object) -> first position
	escapes       []string
}

func newPubAccess() *pubAccess {
	return &pubAccess{reads: map[string]token.Pos{}, writes: map[string]token.Pos{}}
}

type pubKey struct {
	fn   *ssa.Function
	seed string
}

type pubAnalysis struct {
	P     *Program
	pb    *Published
	elem  *types.Named // the published struct type
	memo  map[pubKey]bool
	owner *types.Named
}

func (P *Program) publishedChecks(prop string) []*Obligation {
	var out []*Obligation
	for _, pb := range P.Spec.Published {
		if !hasProp(pb.Props, prop) {
			continue
		}
		out = append(out, P.publishedOne(pb)...)
	}
	return out
}

func (P *Program) publishedOne(pb *Published) []*Obligation {
	name := pb.Struct + "." + pb.Field
	pos := fmt.Sprintf("%s:%d", shortFile(pb.File), pb.Line)
	mutable := map[string]bool{}
	for _, f := range pb.Mutable {
		mutable[f] = true
	}
	for _, m := range structFieldRen {
		for old, nw := range m {
			if mutable[old] {
				mutable[nw] = true // the field was renamed in place since the contracts were frozen
			}
		}
	}
	a := &pubAnalysis{P: P, pb: pb, memo: map[pubKey]bool{}}
	// functions that read S.f
	type rootUse struct {
		fn  *ssa.Function
		acc *pubAccess
	}
	var roots []rootUse
	var fns []*ssa.Function
	for _, fn := range P.ModFuncs {
		fns = append(fns, fn)
	}
	sort.Slice(fns, func(i, j int) bool { return fns[i].String() < fns[j].String() })
	for _, fn := range fns {
		if fn.Parent() != nil {
			continue // closures are reached from their parents
		}
		seeds := a.fieldLoads(fn)
		if len(seeds) == 0 {
			continue
		}
		acc := newPubAccess()
		a.analyse(fn, seeds, nil, nil, acc, map[pubKey]bool{})
		roots = append(roots, rootUse{fn, acc})
	}
	if a.elem == nil {
		return []*Obligation{staticOb("static/published-writes:"+name, pos, "published field resolves to a pointer-to-struct field of the module", false, "no load of "+name+" found")}
	}
	var out []*Obligation
	okW, whyW := true, ""
	nW := 0
	for _, r := range roots {
		nW++
		for f, p := range r.acc.writes {
			if !mutable[f] {
				okW = false
				whyW += fmt.Sprintf("%s writes frozen field %s at %s; ", relName(r.fn), f, P.pos(p))
			}
		}
		for _, e := range r.acc.escapes {
			okW = false
			whyW += fmt.Sprintf("%s: %s; ", relName(r.fn), e)
		}
	}
	out = append(out, staticOb("static/published-writes:"+name, pos,
		fmt.Sprintf("the %d functions that read %s back write only its mutable fields %v", nW, name, pb.Mutable), okW, whyW))
	// the publishing functions: once the pointer is stored in S.f the object is visible, so what
	// follows the store writes only mutable fields through it
	okB, whyB, nB := true, "", 0
	var allFns []*ssa.Function
	var addFn func(f *ssa.Function)
	addFn = func(f *ssa.Function) {
		allFns = append(allFns, f)
		for _, c := range f.AnonFuncs {
			addFn(c)
		}
	}
	for _, fn := range fns {
		if fn.Parent() == nil {
			addFn(fn)
		}
	}
	for _, fn := range allFns {
		for _, b := range fn.Blocks {
			for _, in := range b.Instrs {
				st, ok := in.(*ssa.Store)
				if !ok || !a.isPubField(st.Addr) {
					continue
				}
				if c, isC := st.Val.(*ssa.Const); isC && c.IsNil() {
					continue
				}
				nB++
				acc := newPubAccess()
				a.afterStore(fn, st, acc)
				for f, p := range acc.writes {
					if !mutable[f] {
						okB = false
						whyB += fmt.Sprintf("%s writes frozen field %s at %s after storing the object in %s at %s; ", relName(fn), f, P.pos(p), name, P.pos(st.Pos()))
					}
				}
				for _, e := range acc.escapes {
					okB = false
					whyB += fmt.Sprintf("%s after the store at %s: %s; ", relName(fn), P.pos(st.Pos()), e)
				}
			}
		}
	}
	out = append(out, staticOb("static/published-before:"+name, pos,
		fmt.Sprintf("the %d stores into %s come after every write of a frozen field by the storing function (the object is complete when it becomes visible)", nB, name), okB, whyB))
	for _, r := range roots {
		if r.fn.Signature.Recv() == nil || !token.IsExported(r.fn.Name()) {
			continue
		}
		ok, why := true, ""
		var fs []string
		for f := range r.acc.reads {
			fs = append(fs, f)
		}
		sort.Strings(fs)
		for _, f := range fs {
			if f == "*" {
				ok = false
				why += fmt.Sprintf("copies the whole published %s at %s, which reads the mutable fields %v; ", a.elem.Obj().Name(), P.pos(r.acc.reads[f]), pb.Mutable)
			} else if mutable[f] {
				ok = false
				why += fmt.Sprintf("reads mutable field %s at %s; ", f, P.pos(r.acc.reads[f]))
			}
		}
		out = append(out, staticOb("static/published-reads:"+relName(r.fn), P.pos(r.fn.Pos()),
			fmt.Sprintf("an exported method reads through %s only fields that are frozen after publication (reads %v)", name, fs), ok, why))
	}
	return out
}

func shortFile(p string) string {
	if i := strings.LastIndex(p, "/"); i >= 0 {
		return p[i+1:]
	}
	return p
}

// isPubField: v is FieldAddr x.<Field> with x of type *<Struct>.
func (a *pubAnalysis) isPubField(v ssa.Value) bool {
	fa, ok := v.(*ssa.FieldAddr)
	if !ok {
		return false
	}
	st, ok := derefType(fa.X.Type()).Underlying().(*types.Struct)
	if !ok {
		return false
	}
	n, ok := types.Unalias(derefType(fa.X.Type())).(*types.Named)
	if !ok || n.Obj().Name() != a.pb.Struct || n.Obj().Pkg() == nil || n.Obj().Pkg().Path() != a.pb.Pkg {
		return false
	}
	if st.Field(fa.Field).Name() != a.pb.Field {
		return false
	}
	if a.elem == nil {
		if e, ok := types.Unalias(derefType(st.Field(fa.Field).Type())).(*types.Named); ok {
			a.elem = e
		}
	}
	return true
}

// fieldLoads: values in fn (and its closures) that are loads of S.f.
func (a *pubAnalysis) fieldLoads(fn *ssa.Function) map[ssa.Value]bool {
	out := map[ssa.Value]bool{}
	var visit func(f *ssa.Function)
	visit = func(f *ssa.Function) {
		for _, b := range f.Blocks {
			for _, in := range b.Instrs {
				if u, ok := in.(*ssa.UnOp); ok && u.Op == token.MUL && a.isPubField(u.X) {
					out[u] = true
				}
			}
		}
		for _, c := range f.AnonFuncs {
			visit(c)
		}
	}
	visit(fn)
	return out
}

// analyse collects the accesses made in fn through pointers to the published object:
// seeds (values that are such pointers), tainted parameters and tainted free-variable cells.
func (a *pubAnalysis) analyse(fn *ssa.Function, seeds map[ssa.Value]bool, params map[int]bool, freeCells map[int]bool, acc *pubAccess, stack map[pubKey]bool) {
	key := pubKey{fn, fmt.Sprint(len(seeds), params, freeCells)}
	if stack[key] {
		return
	}
	stack[key] = true
	defer delete(stack, key)

	ptr := map[ssa.Value]bool{}  // value is a pointer to the published object
	cell := map[ssa.Value]bool{} // value is the address of a variable holding such a pointer
	clos := map[ssa.Value]*ssa.MakeClosure{}
	closCell := map[ssa.Value]*ssa.MakeClosure{}
	for v := range seeds {
		if v.Parent() == fn {
			ptr[v] = true
		}
	}
	for i := range params {
		if i < len(fn.Params) {
			ptr[fn.Params[i]] = true
		}
	}
	for i := range freeCells {
		if i < len(fn.FreeVars) {
			cell[fn.FreeVars[i]] = true
		}
	}
	// propagate to a fixed point (flow-insensitive)
	for changed := true; changed; {
		changed = false
		mark := func(m map[ssa.Value]bool, v ssa.Value) {
			if !m[v] {
				m[v] = true
				changed = true
			}
		}
		for _, b := range fn.Blocks {
			for _, in := range b.Instrs {
				switch x := in.(type) {
				case *ssa.Store:
					if ptr[x.Val] {
						mark(cell, x.Addr)
					}
					if mc, ok := x.Val.(*ssa.MakeClosure); ok {
						if closCell[x.Addr] != mc {
							closCell[x.Addr] = mc
							changed = true
						}
					}
				case *ssa.UnOp:
					if x.Op == token.MUL {
						if cell[x.X] {
							mark(ptr, x)
						}
						if mc, ok := closCell[x.X]; ok && clos[x] != mc {
							clos[x] = mc
							changed = true
						}
					}
				case *ssa.ChangeType:
					if ptr[x.X] {
						mark(ptr, x)
					}
				case *ssa.Phi:
					for _, e := range x.Edges {
						if ptr[e] {
							mark(ptr, x)
						}
					}
				case *ssa.MakeClosure:
					clos[x] = x
				}
			}
		}
	}
	isElemPtr := func(v ssa.Value) bool {
		if a.elem == nil {
			return false
		}
		n, ok := types.Unalias(derefType(v.Type())).(*types.Named)
		return ok && n.Obj() == a.elem.Obj()
	}
	note := func(m map[string]token.Pos, f string, p token.Pos) {
		if _, ok := m[f]; !ok {
			m[f] = p
		}
	}
	for _, b := range fn.Blocks {
		for _, in := range b.Instrs {
			switch x := in.(type) {
			case *ssa.FieldAddr:
				if !ptr[x.X] || !isElemPtr(x.X) {
					continue
				}
				st := derefType(x.X.Type()).Underlying().(*types.Struct)
				fname := st.Field(x.Field).Name()
				wrote := false
				for _, ref := range *x.Referrers() {
					if s, ok := ref.(*ssa.Store); ok && s.Addr == x {
						note(acc.writes, fname, s.Pos())
						wrote = true
					} else {
						note(acc.reads, fname, x.Pos())
					}
				}
				_ = wrote
			case *ssa.UnOp:
				if x.Op == token.MUL && ptr[x.X] && isElemPtr(x.X) {
					note(acc.reads, "*", x.Pos())
				}
			case *ssa.Store:
				if ptr[x.Addr] && isElemPtr(x.Addr) {
					note(acc.writes, "*", x.Pos())
				}
			case ssa.CallInstruction:
				a.call(fn, x, ptr, cell, clos, acc, stack)
			}
		}
	}
	// closures created here that capture a tainted cell or are handed a tainted pointer are
	// analysed at their call sites (call) or, when they escape (sent, stored), right here.
	for _, b := range fn.Blocks {
		for _, in := range b.Instrs {
			mc, ok := in.(*ssa.MakeClosure)
			if !ok {
				continue
			}
			fc := map[int]bool{}
			for i, bnd := range mc.Bindings {
				if cell[bnd] {
					fc[i] = true
				}
				if ptr[bnd] {
					acc.escapes = append(acc.escapes, "published pointer captured by value in "+mc.Fn.Name())
				}
			}
			if len(fc) > 0 {
				a.analyse(mc.Fn.(*ssa.Function), seeds, nil, fc, acc, stack)
			} else if len(a.fieldLoadsIn(mc.Fn.(*ssa.Function), seeds)) > 0 {
				a.analyse(mc.Fn.(*ssa.Function), seeds, nil, nil, acc, stack)
			}
		}
	}
}

func (a *pubAnalysis) fieldLoadsIn(fn *ssa.Function, seeds map[ssa.Value]bool) []ssa.Value {
	var out []ssa.Value
	for v := range seeds {
		if v.Parent() == fn {
			out = append(out, v)
		}
	}
	return out
}

func (a *pubAnalysis) call(fn *ssa.Function, ci ssa.CallInstruction, ptr, cell map[ssa.Value]bool, clos map[ssa.Value]*ssa.MakeClosure, acc *pubAccess, stack map[pubKey]bool) {
	cc := ci.Common()
	tainted := map[int]bool{}
	for i, arg := range cc.Args {
		if ptr[arg] {
			tainted[i] = true
		}
		if cell[arg] {
			acc.escapes = append(acc.escapes, fmt.Sprintf("address of a variable holding the published pointer passed to a call at %s", a.P.pos(ci.Pos())))
		}
	}
	if len(tainted) == 0 {
		return
	}
	if cc.IsInvoke() {
		acc.escapes = append(acc.escapes, fmt.Sprintf("published pointer passed to interface method %s at %s", cc.Method.Name(), a.P.pos(ci.Pos())))
		return
	}
	var callee *ssa.Function
	var free map[int]bool
	switch v := cc.Value.(type) {
	case *ssa.Function:
		callee = v
	case *ssa.MakeClosure:
		callee = v.Fn.(*ssa.Function)
	default:
		if mc, ok := clos[cc.Value]; ok {
			callee = mc.Fn.(*ssa.Function)
			free = map[int]bool{}
			for i, bnd := range mc.Bindings {
				if cell[bnd] {
					free[i] = true
				}
			}
		}
	}
	if callee == nil {
		acc.escapes = append(acc.escapes, fmt.Sprintf("published pointer passed to a dynamically chosen function at %s", a.P.pos(ci.Pos())))
		return
	}
	if callee.Blocks == nil || callee.Pkg == nil || !inModule(callee.Pkg.Pkg) {
		acc.escapes = append(acc.escapes, fmt.Sprintf("published pointer passed to external %s at %s", callee.String(), a.P.pos(ci.Pos())))
		return
	}
	a.analyse(callee, nil, tainted, free, acc, stack)
}

// afterStore collects the writes made through aliases of the pointer stored by st (a store
// into the published field) by the instructions of fn that can execute after st.
func (a *pubAnalysis) afterStore(fn *ssa.Function, st *ssa.Store, acc *pubAccess) {
	ptr := map[ssa.Value]bool{st.Val: true}
	cell := map[ssa.Value]bool{}
	if u, ok := st.Val.(*ssa.UnOp); ok && u.Op == token.MUL {
		cell[u.X] = true
	}
	for changed := true; changed; {
		changed = false
		for _, b := range fn.Blocks {
			for _, in := range b.Instrs {
				switch x := in.(type) {
				case *ssa.Store:
					if ptr[x.Val] && !a.isPubField(x.Addr) && !cell[x.Addr] {
						cell[x.Addr] = true
						changed = true
					}
					if cell[x.Addr] && !ptr[x.Val] {
						// the variable the pointer was read from is assigned elsewhere: its other
						// values alias the object on some path
						ptr[x.Val] = true
						changed = true
					}
				case *ssa.UnOp:
					if x.Op == token.MUL && cell[x.X] && !ptr[x] {
						ptr[x] = true
						changed = true
					}
				case *ssa.ChangeType:
					if ptr[x.X] && !ptr[x] {
						ptr[x] = true
						changed = true
					}
				}
			}
		}
	}
	// instructions that can run after the store
	after := map[ssa.Instruction]bool{}
	seen := map[*ssa.BasicBlock]bool{}
	var work []*ssa.BasicBlock
	blk := st.Block()
	past := false
	for _, in := range blk.Instrs {
		if past {
			after[in] = true
		}
		if in == ssa.Instruction(st) {
			past = true
		}
	}
	work = append(work, blk.Succs...)
	for len(work) > 0 {
		b := work[0]
		work = work[1:]
		if seen[b] {
			continue
		}
		seen[b] = true
		for _, in := range b.Instrs {
			after[in] = true
		}
		work = append(work, b.Succs...)
	}
	isElemPtr := func(v ssa.Value) bool {
		if a.elem == nil {
			return false
		}
		n, ok := types.Unalias(derefType(v.Type())).(*types.Named)
		return ok && n.Obj() == a.elem.Obj()
	}
	clos := map[ssa.Value]*ssa.MakeClosure{}
	for _, b := range fn.Blocks {
		for _, in := range b.Instrs {
			if !after[in] {
				continue
			}
			switch x := in.(type) {
			case *ssa.Store:
				if fa, ok := x.Addr.(*ssa.FieldAddr); ok && ptr[fa.X] && isElemPtr(fa.X) {
					stt := derefType(fa.X.Type()).Underlying().(*types.Struct)
					f := stt.Field(fa.Field).Name()
					if _, dup := acc.writes[f]; !dup {
						acc.writes[f] = x.Pos()
					}
				} else if ptr[x.Addr] && isElemPtr(x.Addr) {
					if _, dup := acc.writes["*"]; !dup {
						acc.writes["*"] = x.Pos()
					}
				}
			case ssa.CallInstruction:
				a.call(fn, x, ptr, map[ssa.Value]bool{}, clos, acc, map[pubKey]bool{})
			}
		}
	}
	// reads made by callees are of no interest here
	acc.reads = map[string]token.Pos{}
}
