package main

// Path-wise symbolic execution of naive-form SSA between cut points (entry, loop heads,
// returns), generating one VC per (path, assertion).

import (
	"fmt"
	"os"
	"path/filepath"
	"runtime"
	"go/constant"
	"go/token"
	"go/types"
	"math/big"
	"sort"
	"strings"

	"golang.org/x/tools/go/ssa"
)

type Obligation struct {
	Name   string // <func>/<kind>[#n|:label]
	Fn     string
	Kind   string
	Pos    string
	Descr  string
	Assume []*Term
	Goal   *Term
	Trail  string
	Inputs map[string]string // SMT constant -> source-level input name
	// filled by the discharger
	Result SolveResult
	Live   bool // the path's assumptions are satisfiable (vacuity guard)
}

type heapKeyInfo struct{ sort Sort }

var heapSorts = map[string]Sort{
	ghSent:   ArrSort(SInt, SInt),
	ghRecvd:  ArrSort(SInt, SInt),
	ghClosed: ArrSort(SInt, SBool),
}

func regHeap(key string, s Sort) string {
	if _, ok := heapSorts[key]; !ok {
		heapSorts[key] = s
	}
	return key
}

type Exec struct {
	P        *Program
	fn       *ssa.Function
	ct       *Contract
	full     bool // function under contract: all obligation kinds; otherwise safety sweep only
	obs      []*Obligation
	nfresh   int
	entry    *State
	heapCls  map[*ssa.Alloc]bool // alloc is a heap object (reference) rather than a cell
	shared   map[*ssa.Alloc]bool // captured and written by a closure
	loops    []*Loop
	headOf   map[*ssa.BasicBlock]*Loop
	paths    int
	capped   bool
	ordinals map[string]map[ssa.Instruction]int
	unsup    []string
	inputs   map[string]string
	params   map[string]Val
	pathCap  int
	deadEnds int
	fresh    map[ssa.Value]bool
	returns  int
	closedChain map[string]*Term // closed-array version -> previous version (closing is monotone)
	extUsed, uncontracted, trustedUsed, ifaceUsed map[string]bool
	havocAllCount int
	specErrs []string
	pureMemo map[string]pureMemo
	lastCallName string
	closesMemo int
	recvSelf *specBinding
	assumedClauses []string
	curLoop *Loop
	argTypes map[string]types.Type
	reassuming bool
	nscope int
	prop string
	callScope string
	inlined  map[string]bool // contract-less helpers executed inline
	inlWhy   string
}

func (x *Exec) freshVar(hint string, s Sort) *Term {
	x.nfresh++
	return Var(fmt.Sprintf("%s!%d", smtName(hint), x.nfresh), s)
}

func (x *Exec) unsupported(msg string) {
	for _, u := range x.unsup {
		if u == msg {
			return
		}
	}
	x.unsup = append(x.unsup, msg)
}

// ordinal gives a stable per-kind number to a safety-relevant instruction (source order).
func (x *Exec) ordinal(kind string, in ssa.Instruction) int {
	if x.ordinals == nil {
		x.ordinals = map[string]map[ssa.Instruction]int{}
	}
	m := x.ordinals[kind]
	if m == nil {
		m = map[ssa.Instruction]int{}
		x.ordinals[kind] = m
	}
	if n, ok := m[in]; ok {
		return n
	}
	n := len(m) + 1
	m[in] = n
	return n
}

func (x *Exec) oblige(st *State, kind, label string, goal *Term, pos token.Pos, descr string) {
	name := relName(x.fn) + "/" + kind
	if label != "" {
		name += label
	}
	if !goal.IsTrue() {
		ob := &Obligation{Name: name, Fn: relName(x.fn), Kind: kind, Pos: x.P.pos(pos), Descr: descr,
			Assume: append([]*Term{}, st.assume...), Goal: goal, Trail: strings.Join(st.trail, " "), Inputs: x.inputs}
		x.obs = append(x.obs, ob)
	} else {
		x.obs = append(x.obs, &Obligation{Name: name, Fn: relName(x.fn), Kind: kind, Pos: x.P.pos(pos), Descr: descr,
			Goal: True, Trail: strings.Join(st.trail, " ")})
	}
	// after an assertion the fact may be assumed on the rest of the path (quantified facts are
	// left out: they cost the solver more than they help)
	if !strings.Contains(goal.Key(), "(forall ") {
		st.add(goal)
	}
}

// ---------------------------------------------------------------------------
// pre-pass: allocation classes

func (x *Exec) classify() {
	x.heapCls = map[*ssa.Alloc]bool{}
	x.shared = map[*ssa.Alloc]bool{}
	var simpleUse func(v ssa.Value, depth int) bool
	simpleUse = func(v ssa.Value, depth int) bool {
		refs := v.Referrers()
		if refs == nil {
			return true
		}
		for _, r := range *refs {
			switch u := r.(type) {
			case *ssa.Store:
				if u.Addr != v {
					return false // the address itself is stored somewhere
				}
			case *ssa.UnOp:
				if u.Op != token.MUL {
					return false
				}
			case *ssa.FieldAddr:
				if !simpleUse(u, depth+1) {
					return false
				}
			case *ssa.IndexAddr:
				if u.X != v || !simpleUse(u, depth+1) {
					return false
				}
			case *ssa.DebugRef:
			case *ssa.MakeClosure:
				if depth > 0 {
					return false
				}
			default:
				return false
			}
		}
		return true
	}
	for _, b := range x.fn.Blocks {
		for _, in := range b.Instrs {
			a, ok := in.(*ssa.Alloc)
			if !ok {
				continue
			}
			if !simpleUse(a, 0) {
				x.heapCls[a] = true
			}
			// captured by a closure that writes it?
			if refs := a.Referrers(); refs != nil {
				for _, r := range *refs {
					if mc, ok := r.(*ssa.MakeClosure); ok {
						cf := mc.Fn.(*ssa.Function)
						for i, bnd := range mc.Bindings {
							if bnd == a && closureWrites(cf, i, 0) {
								x.shared[a] = true
							}
						}
					}
				}
			}
		}
	}
}

func closureWrites(fn *ssa.Function, fvIdx int, depth int) bool {
	if depth > 4 || fvIdx >= len(fn.FreeVars) {
		return true
	}
	fv := fn.FreeVars[fvIdx]
	refs := fv.Referrers()
	if refs == nil {
		return false
	}
	var writes func(v ssa.Value) bool
	writes = func(v ssa.Value) bool {
		rs := v.Referrers()
		if rs == nil {
			return false
		}
		for _, r := range *rs {
			switch u := r.(type) {
			case *ssa.Store:
				if u.Addr == v {
					return true
				}
				return true
			case *ssa.FieldAddr:
				if writes(u) {
					return true
				}
			case *ssa.IndexAddr:
				if writes(u) {
					return true
				}
			case *ssa.MakeClosure:
				cf := u.Fn.(*ssa.Function)
				for i, b := range u.Bindings {
					if b == v && closureWrites(cf, i, depth+1) {
						return true
					}
				}
			case *ssa.UnOp, *ssa.DebugRef:
			default:
				return true
			}
		}
		return false
	}
	return writes(fv)
}

// ---------------------------------------------------------------------------
// values

func (x *Exec) constVal(c *ssa.Const) Val {
	t := c.Type()
	if c.Value == nil {
		return Val{T: zeroOf(t)}
	}
	switch c.Value.Kind() {
	case constant.Bool:
		return Val{T: BoolLit(constant.BoolVal(c.Value))}
	case constant.Int:
		if b, ok := t.Underlying().(*types.Basic); ok && b.Info()&types.IsFloat != 0 {
			return Val{T: RealLit(c.Value.ExactString())}
		}
		bi, _ := new(big.Int).SetString(c.Value.ExactString(), 10)
		return Val{T: BigLit(bi)}
	case constant.Float:
		if b, ok := t.Underlying().(*types.Basic); ok && b.Info()&types.IsInteger != 0 {
			bi, _ := new(big.Int).SetString(constant.ToInt(c.Value).ExactString(), 10)
			return Val{T: BigLit(bi)}
		}
		r := c.Value.ExactString()
		return Val{T: RealLit(r)}
	case constant.String:
		return Val{T: x.strConst(constant.StringVal(c.Value))}
	}
	return Val{T: x.freshVar("const", sortOfStatic(t))}
}

var strConsts = map[string]*Term{}
var strConstFacts = map[string][]*Term{}

func (x *Exec) strConst(s string) *Term {
	if s == "" {
		return strEmpty
	}
	if t, ok := strConsts[s]; ok {
		return t
	}
	name := fmt.Sprintf("str!%d", len(strConsts)+1)
	t := Var(name, SStr)
	strConsts[s] = t
	return t
}

// strLitFacts: facts about the string literals occurring in a VC (length, display width of
// printable ASCII and of the few non-ASCII literals the library uses).
func strLitFacts(used map[string]bool) []*Term {
	var out []*Term
	out = append(out, Eq(App("slen", SInt, strEmpty), Zero), Eq(App("dw", SInt, strEmpty), Zero))
	var ks []string
	for s := range strConsts {
		ks = append(ks, s)
	}
	sort.Strings(ks)
	for _, s := range ks {
		t := strConsts[s]
		if !used[t.Val] {
			continue
		}
		out = append(out, Eq(App("slen", SInt, t), IntLit(int64(len(s)))))
		out = append(out, Neq(t, strEmpty))
		w, ok := asciiWidth(s)
		if ok {
			out = append(out, Eq(App("dw", SInt, t), IntLit(int64(w))))
		}
	}
	return out
}

func asciiWidth(s string) (int, bool) {
	w := 0
	for _, r := range s {
		switch {
		case r == '…':
			w++
		case r == '\n' || r == '\r':
		case r >= 0x20 && r < 0x7f:
			w++
		default:
			return 0, false
		}
	}
	return w, true
}

func (x *Exec) val(st *State, v ssa.Value) Val {
	switch c := v.(type) {
	case *ssa.Const:
		return x.constVal(c)
	case *ssa.Function:
		v := Val{T: x.fnRef(c), Fn: c}
		if st != nil {
			// remembered by value, so that a call through a local variable finds the function
			if st.clos == nil {
				st.clos = map[string]Val{}
			}
			st.clos[v.T.Key()] = v
			// a function literal without captured variables is its own code: fnof(f) == f
			theU.DeclFunc("fnof", SInt, SInt)
			st.add(Eq(App("fnof", SInt, v.T), v.T))
		}
		return v
	case *ssa.Global:
		return Val{Addr: &Addr{Root: rGlobal, Key: regHeap("G$"+smtName(c.String()), sortOfStatic(derefType(c.Type()))), Ty: derefType(c.Type())}}
	case *ssa.Builtin:
		return Val{}
	case *ssa.Parameter:
		if pv, ok := x.params[c.Name()]; ok {
			return pv
		}
	case *ssa.FreeVar:
		return Val{Addr: &Addr{Root: rCell, Cell: c, Ty: derefType(c.Type())}}
	}
	if r, ok := st.regs[v]; ok {
		return r
	}
	// value defined on a path not taken (should not happen) or unsupported
	x.unsupported(fmt.Sprintf("undefined value %s (%T)", v.Name(), v))
	r := Val{T: x.freshVar("undef", sortOfStatic(v.Type()))}
	st.regs[v] = r
	return r
}

var fnRefs = map[string]*Term{}

func (x *Exec) fnRef(fn *ssa.Function) *Term {
	k := fn.String()
	if t, ok := fnRefs[k]; ok {
		return t
	}
	t := Var(fmt.Sprintf("fn!%d", len(fnRefs)+1), SInt)
	fnRefs[k] = t
	return t
}

// term forces a value into a single SMT term (materialising addresses as references).
func (x *Exec) term(st *State, v Val, t types.Type) *Term {
	if v.T != nil {
		return v.T
	}
	if v.Addr != nil {
		return x.addrTerm(st, v.Addr)
	}
	if v.Tup != nil {
		x.unsupported("tuple used as a term")
	}
	return x.freshVar("opaque", sortOfStatic(t))
}

// addrTerm turns a symbolic address into a reference term (an injective function of its
// coordinates, so distinct locations have distinct references).
func (x *Exec) addrTerm(st *State, a *Addr) *Term {
	switch a.Root {
	case rCell:
		if al, ok := a.Cell.(*ssa.Alloc); ok {
			if r, ok := st.objOf[al]; ok && len(a.Path) == 0 {
				return r
			}
		}
		name := "addr!cell!" + smtName(a.Cell.Name())
		base := Var(name+"!"+smtName(relName(x.fn)), SInt)
		return x.pathRef(base, a.Path)
	case rField:
		theU.DeclFunc("addr!"+smtName(a.Key), SInt, SInt)
		return x.pathRef(App("addr!"+smtName(a.Key), SInt, a.Base), a.Path)
	case rMem:
		return x.pathRef(a.Base, a.Path)
	case rElem:
		theU.DeclFunc("addr!elem", SInt, SInt, SInt)
		return x.pathRef(App("addr!elem", SInt, a.Base, a.Idx), a.Path)
	case rGlobal:
		return x.pathRef(Var("addr!"+smtName(a.Key), SInt), a.Path)
	}
	return x.freshVar("addr", SInt)
}

func (x *Exec) pathRef(base *Term, path []PathEl) *Term {
	for _, p := range path {
		if p.Index != nil {
			theU.DeclFunc("addr!idx", SInt, SInt, SInt)
			base = App("addr!idx", SInt, base, p.Index)
		} else {
			fn := fmt.Sprintf("addr!fld!%d", p.Field)
			theU.DeclFunc(fn, SInt, SInt)
			base = App(fn, SInt, base)
		}
	}
	return base
}

// ---------------------------------------------------------------------------
// memory

func (x *Exec) rootGet(st *State, a *Addr) *Term {
	switch a.Root {
	case rCell:
		if t, ok := st.cells[a.Cell]; ok {
			return t
		}
		// free variable or cell first seen: symbolic initial content
		t := x.freshVar("cell_"+a.Cell.Name(), sortOfStatic(a.Ty))
		st.cells[a.Cell] = t
		st.add(rangeFacts(t, a.Ty)...)
		return t
	case rField, rMem:
		return Select(st.heapArr(a.Key, heapSorts[a.Key]), a.Base)
	case rElem:
		return Select(Select(st.heapArr(a.Key, heapSorts[a.Key]), a.Base), a.Idx)
	case rGlobal:
		return st.heapArr(a.Key, heapSorts[a.Key])
	}
	panic("bad root")
}

func (x *Exec) rootSet(st *State, a *Addr, v *Term) {
	switch a.Root {
	case rCell:
		st.cells[a.Cell] = v
		st.seq++
		st.cellSeq[a.Cell] = st.seq
	case rField, rMem:
		arr := st.heapArr(a.Key, heapSorts[a.Key])
		st.heap[a.Key] = Store(arr, a.Base, v)
	case rElem:
		arr := st.heapArr(a.Key, heapSorts[a.Key])
		inner := Select(arr, a.Base)
		st.heap[a.Key] = Store(arr, a.Base, Store(inner, a.Idx, v))
	case rGlobal:
		st.heap[a.Key] = v
	}
}

func pathGet(v *Term, path []PathEl) *Term {
	for _, p := range path {
		if p.Index != nil {
			v = Select(v, p.Index)
		} else {
			v = structField(p.StructTy, v, p.Field)
		}
	}
	return v
}

func pathSet(v *Term, path []PathEl, nv *Term) *Term {
	if len(path) == 0 {
		return nv
	}
	p := path[0]
	if p.Index != nil {
		inner := Select(v, p.Index)
		return Store(v, p.Index, pathSet(inner, path[1:], nv))
	}
	inner := structField(p.StructTy, v, p.Field)
	return structUpdate(p.StructTy, v, p.Field, pathSet(inner, path[1:], nv))
}

func (x *Exec) load(st *State, a *Addr) *Term {
	return pathGet(x.rootGet(st, a), a.Path)
}

func (x *Exec) store(st *State, a *Addr, v *Term) {
	if a.Root == rField && a.Key == "F$Bar$priority" && len(a.Path) == 0 {
		// heap model ghost: a direct priority write may break the heap order; it is repairable
		// by Fix only while this bar is the single out-of-place element
		hord0 := st.ghostBool(ghHord)
		st.ghost[ghHdirty] = Ite(hord0, a.Base, IntLit(-1))
		st.ghost[ghHord] = False
	}
	if len(a.Path) == 0 {
		x.rootSet(st, a, v)
		return
	}
	x.rootSet(st, a, pathSet(x.rootGet(st, a), a.Path, v))
}

// typeAtPath returns the Go type at the end of an address path.
func typeAtPath(a *Addr) types.Type {
	t := a.Ty
	for _, p := range a.Path {
		if p.Index != nil {
			t = t.Underlying().(*types.Array).Elem()
		} else {
			t = t.Underlying().(*types.Struct).Field(p.Field).Type()
		}
	}
	return t
}

// ptrAddr converts a pointer value to an address usable by load/store.
func (x *Exec) ptrAddr(st *State, p Val, ptrType types.Type) *Addr {
	if p.Addr != nil {
		return p.Addr
	}
	et := derefType(ptrType)
	if _, ok := et.Underlying().(*types.Struct); ok {
		// whole-struct access through a reference is handled by loadStruct/storeStruct
		return nil
	}
	if at, ok := et.Underlying().(*types.Array); ok {
		_ = at
		return nil
	}
	key := regHeap("M$"+sortNameOfType(et), ArrSort(SInt, sortOfStatic(et)))
	return &Addr{Root: rMem, Key: key, Base: p.T, Ty: et}
}

func (x *Exec) loadStructRef(st *State, ref *Term, t types.Type) *Term {
	s := t.Underlying().(*types.Struct)
	var fs []*Term
	for i := 0; i < s.NumFields(); i++ {
		k := regHeap(fieldKey(t, i), heapSortField(t, i))
		fs = append(fs, Select(st.heapArr(k, heapSorts[k]), ref))
	}
	return mkStruct(t, fs)
}

func (x *Exec) storeStructRef(st *State, ref *Term, t types.Type, v *Term) {
	s := t.Underlying().(*types.Struct)
	for i := 0; i < s.NumFields(); i++ {
		k := regHeap(fieldKey(t, i), heapSortField(t, i))
		st.heap[k] = Store(st.heapArr(k, heapSorts[k]), ref, structField(t, v, i))
	}
}

func (x *Exec) newRef(st *State, hint string) *Term {
	r := x.freshVar("ref_"+hint, SInt)
	top := st.ghostInt("top")
	st.add(Gt(r, top), Gt(r, Zero))
	st.ghost["top"] = r
	return r
}

// enterFacts: type invariant plus "allocated before now" for reference-like values.
func (x *Exec) enterFacts(st *State, v *Term, t types.Type) {
	st.add(rangeFacts(v, t)...)
	x.allocFacts(st, v, t)
	x.typeInvFacts(st, v, t)
}

// typeInvFacts: a non-nil pointer to a struct with a declared type invariant satisfies it.
// (The invariant's fields are written only while the object is under construction: static
// obligation typeinv-immutable; it is established by every allocating function: typeinv.)
func (x *Exec) typeInvFacts(st *State, v *Term, t types.Type) {
	pt, ok := t.Underlying().(*types.Pointer)
	if !ok {
		if _, isStruct := t.Underlying().(*types.Struct); isStruct {
			// struct passed by value
			for _, ti := range x.P.typeInvsOf(t) {
				env := &Env{x: x, st: st, old: st, fn: x.fn, binds: map[string]specBinding{"self": {Val{T: v}, t}}, mode: "typeinv", pkg: x.P.pkgByPath(ti.Pkg)}
				r := env.eval(ti.Clause.Expr)
				if env.err != nil {
					x.specError(ti.Clause.Expr, env.err)
					continue
				}
				st.add(r.T)
			}
		}
		return
	}
	if len(x.P.typeInvsOf(pt.Elem())) > 0 && !x.reassuming {
		k := v.Key()
		dup := false
		for _, o := range st.invObjs {
			if o.v.Key() == k {
				dup = true
			}
		}
		if !dup {
			st.invObjs = append(st.invObjs, invObj{v, t})
		}
	}
	for _, ti := range x.P.typeInvsOf(pt.Elem()) {
		env := &Env{x: x, st: st, old: st, fn: x.fn, binds: map[string]specBinding{"self": {Val{T: v}, t}}, mode: "typeinv", pkg: x.P.pkgByPath(ti.Pkg)}
		r := env.eval(ti.Clause.Expr)
		if env.err != nil {
			x.specError(ti.Clause.Expr, env.err)
			continue
		}
		st.add(Implies(Neq(v, Zero), r.T))
	}
}

func (P *Program) typeInvsOf(t types.Type) []*TypeInv {
	n, ok := types.Unalias(t).(*types.Named)
	if !ok || n.Obj().Pkg() == nil {
		return nil
	}
	var out []*TypeInv
	for _, ti := range P.Spec.TypeInvs {
		if ti.Pkg == n.Obj().Pkg().Path() && ti.Type == n.Obj().Name() {
			out = append(out, ti)
		}
	}
	return out
}

func (P *Program) pkgByPath(path string) *types.Package {
	for _, p := range P.Pkgs {
		if p.PkgPath == path {
			return p.Types
		}
	}
	return nil
}

func (x *Exec) allocFacts(st *State, v *Term, t types.Type) {
	t = types.Unalias(t)
	top := st.ghostInt("top")
	switch u := t.Underlying().(type) {
	case *types.Pointer, *types.Chan, *types.Map:
		st.add(Le(v, top))
		if ct, ok := u.(*types.Chan); ok {
			// channels of different element types never alias
			theU.DeclFunc("chtype", SInt, SInt)
			st.add(Implies(Neq(v, Zero), Eq(App("chtype", SInt, v), IntLit(int64(x.P.typeTag(types.NewChan(types.SendRecv, ct.Elem())))))))
		}
		if pt, ok := u.(*types.Pointer); ok {
			// every non-nil reference has the dynamic type of the pointer it was reached through
			if _, named := types.Unalias(pt.Elem()).(*types.Named); named {
				st.add(Implies(Neq(v, Zero), Eq(App("typeof", SInt, v), IntLit(int64(x.P.typeTag(t))))))
			}
		}
	case *types.Interface:
		// an interface value holding a reference is that reference (one that exists already);
		// one holding anything else is never equal to a reference
		st.add(Le(v, top))
	case *types.Slice:
		if !isByteSlice(t) {
			st.add(Le(sliceAcc(v, 0), top))
		}
	case *types.Struct:
		for i := 0; i < u.NumFields(); i++ {
			ft := u.Field(i).Type()
			switch ft.Underlying().(type) {
			case *types.Pointer, *types.Chan, *types.Map, *types.Slice, *types.Struct, *types.Interface:
				x.allocFacts(st, structField(t, v, i), ft)
			}
		}
	}
}

// havoc replaces heap arrays / ghosts named by keys with fresh versions.
// reassumeInvs: type invariants talk about fields that are written only while an object is
// under construction (static obligation typeinv-immutable), so they survive any havoc of the
// heap for the objects already known on this path.
func (x *Exec) reassumeInvs(st *State) {
	if x.reassuming || len(st.invObjs) == 0 {
		return
	}
	x.reassuming = true
	for _, o := range st.invObjs {
		x.typeInvFacts(st, o.v, o.t)
	}
	x.reassuming = false
}

func (x *Exec) havoc(st *State, keys map[string]bool) {
	defer x.reassumeInvs(st)
	if os.Getenv("GOWP_DEBUG") == "havoc" && (keys[ghBuf] || keys[modAll]) {
		_, f1, l1, _ := runtime.Caller(1)
		_, f2, l2, _ := runtime.Caller(2)
		fmt.Fprintf(os.Stderr, "havoc %v from %s:%d <- %s:%d\n", sortedKeys(keys), filepath.Base(f1), l1, filepath.Base(f2), l2)
	}
	if keys[modAll] {
		st.epoch++
		// everything module-visible becomes unknown; keep "top" monotone
		oldTop := st.ghostInt("top")
		st.heap = map[string]*Term{}
		ng := map[string]*Term{}
		for k, v := range st.ghost {
			// the activation's own call records are not heap state
			if strings.HasPrefix(k, "#call$") || strings.HasPrefix(k, "#arg$") || strings.HasPrefix(k, "#ret$") {
				ng[k] = v
			}
		}
		st.ghost = ng
		nt := st.ghostInt("top")
		st.add(Ge(nt, oldTop))
		return
	}
	var ks []string
	for k := range keys {
		if i := strings.Index(k, ":"); i > 0 && (strings.HasPrefix(k, ghSent+":") || strings.HasPrefix(k, ghRecvd+":")) {
			// typed channel wildcard (loop head, inferred frame): only channels of that type
			if !keys[k[:i]] && x.fn != nil {
				x.havocTyped(st, k[:i], x.chanTag(fnPkg(x.fn).Path(), k[i+1:]))
			}
			continue
		}
		ks = append(ks, k)
	}
	sort.Strings(ks)
	for _, k := range ks {
		switch {
		case k == ghSpawn:
			for g := range st.ghost {
				if strings.HasPrefix(g, ghSpawn) {
					old := st.ghost[g]
					st.ghost[g] = x.freshVar(g, SInt)
					st.add(Ge(st.ghost[g], old))
				}
			}
			st.bump["#spawnver"]++
		case strings.HasPrefix(k, ghSpawn+"$"):
			for _, g := range []string{k, ghSpawn} {
				old := st.ghostInt(g)
				st.ghost[g] = x.freshVar(g, SInt)
				st.add(Ge(st.ghost[g], old))
			}
		case k == ghHord || k == ghHbound || k == ghHdirty:
			delete(st.ghost, k)
			st.bump[k]++
		case k == ghLast:
			for h := range st.heap {
				if strings.HasPrefix(h, ghLast) {
					st.heap[h] = x.freshVar(h, heapSorts[h])
				}
			}
			for h, s := range heapSorts {
				if strings.HasPrefix(h, ghLast) {
					if _, ok := st.heap[h]; !ok {
						st.heap[h] = x.freshVar(h, s)
					}
				}
			}
		case k == ghClosed:
			// closing is monotone: a closed channel stays closed
			old := st.heapArr(ghClosed, heapSorts[ghClosed])
			nw := x.freshVar(k, heapSorts[k])
			st.heap[k] = nw
			x.closedChain[nw.Key()] = old
		case k == ghSent || k == ghRecvd:
			st.heap[k] = x.freshVar(k, heapSorts[k])
			if k == ghRecvd {
				for h, s := range heapSorts {
					if strings.HasPrefix(h, "#lrecv$") {
						st.heap[h] = x.freshVar(h, s)
					}
				}
			}
		default:
			s, ok := heapSorts[k]
			if !ok {
				// key of a type never touched by the executor so far: nothing in this state refers to it,
				// but a later access must see a new version
				delete(st.heap, k)
				st.bump[k]++
				continue
			}
			st.heap[k] = x.freshVar(k, s)
		}
	}
	oldTop := st.ghostInt("top")
	nt := x.freshVar("top", SInt)
	st.ghost["top"] = nt
	st.add(Ge(nt, oldTop))
}

// closedAt reads the closed flag of a channel, adding monotonicity links to earlier versions.
func (x *Exec) closedAt(st *State, arr, ch *Term) *Term {
	cur := Select(arr, ch)
	a := arr
	for depth := 0; depth < 16; depth++ {
		// strip stores
		base := a
		for base.Op == "store" {
			base = base.Args[0]
		}
		prev, ok := x.closedChain[base.Key()]
		if !ok {
			break
		}
		st.add(Implies(Select(prev, ch), Select(base, ch)))
		a = prev
	}
	return cur
}
