package main

// Property driver: selects the functions and lemmas of a property, generates and discharges
// their obligations, matches known findings, replays counterexamples, writes evidence.

import (
	"regexp"
	"os/exec"
	"encoding/json"
	"go/types"
	"fmt"
	"os"
	"path/filepath"
	"sort"
	"strconv"
	"strings"
	"sync"
	"time"

	"golang.org/x/tools/go/ssa"
)

type Options struct {
	Prop     string
	Tier     string
	Repo     string
	VerifDir string
	Seed     int64
	Verbose  bool
	Only     string
	WriteLed bool
}

type NamedResult struct {
	Name      string
	Kind      string
	Instances int
	LiveInstances int
	Trivial   bool
	Failed    []*Obligation // instances not discharged
	Backends  map[string]int
	TimeS     float64
	MaxS      float64
	Descr     string
	Pos       string
}

const logicPrelude = "(set-option :produce-models true)\n"

// strAxioms: the abstract string measures are non-negative and bounded (assumption: no
// string is longer than 2^40 bytes; display width is at most twice the byte length).
const strAxioms = `(assert (forall ((s Str)) (! (and (>= (dw s) 0) (<= (dw s) (* 2 (slen s)))) :pattern ((dw s)))))
(assert (forall ((s Str)) (! (and (>= (slen s) 0) (<= (slen s) 1099511627776)) :pattern ((slen s)))))
`

const concatAxioms = `(assert (forall ((s Str)) (! (= (sconcat s str!empty) s) :pattern ((sconcat s str!empty)))))
(assert (forall ((s Str)) (! (= (sconcat str!empty s) s) :pattern ((sconcat str!empty s)))))
`

func obligationScript(ob *Obligation, wantModel bool) string {
	used := map[string]bool{}
	var walk func(t *Term)
	seen := map[*Term]bool{}
	walk = func(t *Term) {
		if seen[t] {
			return
		}
		seen[t] = true
		if t.Op == "var" {
			used[t.Val] = true
		}
		for _, a := range t.Args {
			walk(a)
		}
	}
	for _, a := range ob.Assume {
		walk(a)
	}
	walk(ob.Goal)
	as := append([]*Term{}, strLitFacts(used)...)
	// function constants are non-nil and pairwise distinct
	var fns []*Term
	for v := range used {
		if strings.HasPrefix(v, "fn!") {
			fns = append(fns, Var(v, SInt))
		}
	}
	sort.Slice(fns, func(i, j int) bool { return fns[i].Val < fns[j].Val })
	for i, f := range fns {
		as = append(as, Lt(f, Zero)) // negative: never equal to an allocated reference
		for _, g := range fns[i+1:] {
			as = append(as, Neq(f, g))
		}
	}
	as = append(as, ob.Assume...)
	if ob.Kind == "cover" || ob.Kind == "reach" {
		// satisfiability check: quantified assumptions are left out (a model of the rest is
		// found fast; an inconsistency that needs a quantified fact is not caught here)
		var qf []*Term
		for _, a := range as {
			if !strings.Contains(a.Key(), "(forall ") {
				qf = append(qf, a)
			}
		}
		return theU.Script(logicPrelude+"; vacuity guard (quantifier-free part)\n", qf, nil, false)
	}
	return theU.Script(logicPrelude, as, ob.Goal, wantModel)
}

// runMustFail (thorough tier): every seeded change kept under <verif>/seeded for this property
// is applied to a scratch copy of the repository (outside /repo and /verif, removed afterwards)
// and the quick check is run against it; a change the check does not flag is a weakness of the
// check and is reported in the evidence (it is not a violation of the unchanged tree).
func runMustFail(opt Options) map[string]interface{} {
	res := map[string]interface{}{}
	dirs, _ := filepath.Glob(filepath.Join(opt.VerifDir, "seeded", "*", "meta.json"))
	sort.Strings(dirs)
	var caught, missed, skipped []string
	self, err := os.Executable()
	if err != nil {
		self = os.Args[0]
	}
	for _, mf := range dirs {
		var meta struct {
			Property string   `json:"property"`
			Also     []string `json:"also"`
		}
		data, err := os.ReadFile(mf)
		if err != nil || json.Unmarshal(data, &meta) != nil {
			continue
		}
		applies := meta.Property == opt.Prop
		for _, a := range meta.Also {
			applies = applies || a == opt.Prop
		}
		if !applies {
			continue
		}
		id := filepath.Base(filepath.Dir(mf))
		patch := filepath.Join(filepath.Dir(mf), "patch.diff")
		scratch, err := os.MkdirTemp("", "gowp-mustfail-")
		if err != nil {
			skipped = append(skipped, id+": "+err.Error())
			continue
		}
		func() {
			defer os.RemoveAll(scratch)
			if out, err := exec.Command("cp", "-r", opt.Repo+"/.", scratch).CombinedOutput(); err != nil {
				skipped = append(skipped, id+": copy failed: "+string(out))
				return
			}
			os.RemoveAll(filepath.Join(scratch, ".git"))
			ap := exec.Command("git", "apply", "--whitespace=nowarn", patch)
			ap.Dir = scratch
			ap.Env = append(os.Environ(), "GIT_CEILING_DIRECTORIES="+filepath.Dir(scratch))
			if out, err := ap.CombinedOutput(); err != nil {
				skipped = append(skipped, id+": patch does not apply to the current tree: "+strings.TrimSpace(string(out)))
				return
			}
			sv := filepath.Join(scratch, ".verif")
			os.MkdirAll(sv, 0o755)
			exec.Command("cp", "-r", filepath.Join(opt.VerifDir, "ledger"), filepath.Join(opt.VerifDir, "KNOWN_FINDINGS.txt"), sv).Run()
			c := exec.Command(self, "check", "--prop", opt.Prop, "--tier", "quick", "--repo", scratch, "--verif", sv)
			c.Env = append(os.Environ(), "GOWP_NO_SELFTEST=1")
			out, _ := c.CombinedOutput()
			if strings.Contains(string(out), "\nVIOLATION ") || strings.HasPrefix(string(out), "VIOLATION ") {
				caught = append(caught, id)
			} else {
				missed = append(missed, id)
			}
		}()
	}
	res["seeded_changes"] = len(caught) + len(missed)
	res["flagged"] = caught
	res["not_flagged"] = missed
	res["skipped"] = skipped
	for _, m := range missed {
		fmt.Printf("SELFTEST-MISS: property=%s seeded change %s is not flagged by this check\n", opt.Prop, m)
	}
	return res
}

// solveAll: thorough tier - every obligation goes to all three solvers (cross-check).
var solveAll bool

func discharge(obs []*Obligation, outDir string, timeoutS int, order []string, workers int) {
	// Term.Key memoises without synchronisation: print every shared term once, sequentially,
	// so that the workers below only read.
	for _, ob := range obs {
		for _, a := range ob.Assume {
			a.Key()
		}
		if ob.Goal != nil {
			ob.Goal.Key()
		}
	}
	var wg sync.WaitGroup
	ch := make(chan int)
	for w := 0; w < workers; w++ {
		wg.Add(1)
		go func() {
			defer wg.Done()
			for i := range ch {
				ob := obs[i]
				if ob.Goal.IsTrue() {
					ob.Result = SolveResult{Status: "unsat", Backend: "simplifier"}
					continue
				}
				script := obligationScript(ob, ob.Kind != "cover" && ob.Kind != "reach")
				file := filepath.Join(outDir, fmt.Sprintf("%04d-%s", i, fileSafe(ob.Name)))
				var r SolveResult
				if solveAll {
					r = SolveAll(script, file, timeoutS, order)
				} else {
					r = Solve(script, file, timeoutS, order)
				}
				if r.Status == "unsat" && liveKinds[ob.Kind] {
					// vacuity guard per obligation: are the path's assumptions satisfiable at all?
					probe := &Obligation{Name: ob.Name, Kind: "reach", Assume: ob.Assume, Goal: False}
					lr := Solve(obligationScript(probe, false), file+".live", 2, order[:1])
					ob.Live = lr.Status != "unsat"
				} else {
					ob.Live = true
				}
				if ob.Kind == "cover" || ob.Kind == "reach" {
					// expected: satisfiable
					switch r.Status {
					case "sat":
						r.Status = "unsat" // i.e. the guard passed
						r.Model = nil
					case "unsat":
						r.Status = "sat" // vacuous preconditions: report as failure
					}
				}
				ob.Result = r
			}
		}()
	}
	for i := range obs {
		ch <- i
	}
	close(ch)
	wg.Wait()
}

func fileSafe(s string) string {
	var sb strings.Builder
	for _, r := range s {
		switch {
		case r >= 'a' && r <= 'z', r >= 'A' && r <= 'Z', r >= '0' && r <= '9', r == '-', r == '_', r == '.':
			sb.WriteRune(r)
		default:
			sb.WriteRune('_')
		}
	}
	out := sb.String()
	if len(out) > 120 {
		out = out[:120]
	}
	return out
}

// liveKinds: contract-level obligations for which at least one path instance must have
// satisfiable assumptions (a clause proved only on infeasible paths is vacuous).
var liveKinds = map[string]bool{"ensures": true, "iter": true, "inv": true}

type KnownFinding struct {
	Prop, Obligation, Class, Text string
	Fixed                         bool
}

func loadKnownFindings(path string) []KnownFinding {
	data, err := os.ReadFile(path)
	if err != nil {
		return nil
	}
	var out []KnownFinding
	for _, ln := range strings.Split(string(data), "\n") {
		ln = strings.TrimSpace(ln)
		if ln == "" || strings.HasPrefix(ln, "#") {
			continue
		}
		kf := KnownFinding{}
		if strings.HasPrefix(ln, "fixed:") {
			kf.Fixed = true
			ln = strings.TrimSpace(strings.TrimPrefix(ln, "fixed:"))
		}
		rest := ln
		for {
			rest = strings.TrimSpace(rest)
			if strings.HasPrefix(rest, "property=") {
				f := strings.Fields(rest)[0]
				kf.Prop = strings.TrimPrefix(f, "property=")
				rest = strings.TrimPrefix(rest, f)
			} else if strings.HasPrefix(rest, "obligation=") {
				f := strings.Fields(rest)[0]
				kf.Obligation = strings.TrimPrefix(f, "obligation=")
				rest = strings.TrimPrefix(rest, f)
			} else if strings.HasPrefix(rest, "class=") {
				f := strings.Fields(rest)[0]
				kf.Class = strings.TrimPrefix(f, "class=")
				rest = strings.TrimPrefix(rest, f)
			} else {
				break
			}
		}
		kf.Text = rest
		out = append(out, kf)
	}
	return out
}

// contractLevel: obligation kinds recorded in the ledger (their disappearance is a failure).
func contractLevel(kind string) bool {
	switch kind {
	// only what a contract clause or declaration asks for: obligations derived from the code's
	// shape (frames per touched key, send/spawn sites, sweeps) come and go with harmless edits
	case "ensures", "inv", "variant", "lemma", "static", "typeinv", "loopframe", "iter", "refine", "clsinv":
		return true
	}
	return false
}

type Evidence struct {
	PropertyID  string                 `json:"property_id"`
	Tier        string                 `json:"tier"`
	Seed        int64                  `json:"seed"`
	Level       string                 `json:"level"`
	Coverage    map[string]interface{} `json:"coverage"`
	Assumptions []string               `json:"assumptions"`
	WallS       float64                `json:"wall_s"`
	Violations  int                    `json:"violations"`
}

func RunCheck(opt Options) int {
	start := time.Now()
	shapeDir = filepath.Join(opt.VerifDir, "ledger")
	P, err := LoadProgram(opt.Repo)
	if err != nil {
		fmt.Fprintln(os.Stderr, "gowp: engine error:", err)
		return 2
	}
	loadS := time.Since(start).Seconds()
	outDir := filepath.Join(opt.VerifDir, "out", opt.Prop)
	os.RemoveAll(outDir)
	os.MkdirAll(outDir, 0o755)

	timeout := 15
	order := []string{"z3-new", "cvc5", "z3"}
	if opt.Tier == "thorough" {
		timeout = 40
		solveAll = true
	}
	var reports []*FuncReport
	var obs []*Obligation
	var failedBind []string

	// functions under contract for this property
	var fns []*ssa.Function
	for fn, ct := range P.Contracts {
		if hasProp(ct.Props, opt.Prop) && !ct.Trusted {
			fns = append(fns, fn)
		}
	}
	// every function of the module used as a value of a func type whose contract lists the property
	{
		have := map[*ssa.Function]bool{}
		for _, fn := range fns {
			have[fn] = true
		}
		var ftNames []string
		for n := range P.FuncType {
			ftNames = append(ftNames, n)
		}
		sort.Strings(ftNames)
		for _, n := range ftNames {
			if !hasProp(P.FuncType[n].Props, opt.Prop) {
				continue
			}
			for _, impl := range P.FuncTypeImpls[n] {
				if ct := P.Contracts[impl]; ct != nil && !ct.Trusted && !have[impl] {
					have[impl] = true
					fns = append(fns, impl)
				}
			}
		}
	}
	// functions that allocate a type whose invariant belongs to this property
	inFns := map[*ssa.Function]bool{}
	for _, fn := range fns {
		inFns[fn] = true
	}
	for _, ti := range P.Spec.TypeInvs {
		if !hasProp(ti.Props, opt.Prop) {
			continue
		}
		for _, fn := range P.ModFuncs {
			if !inFns[fn] && P.allocatesType(fn, ti) {
				inFns[fn] = true
				fns = append(fns, fn)
			}
		}
	}
	// ... and, transitively, every contracted function of the module they call, spawn, defer or
	// make a closure of: a caller is verified against its callees' contracts, so those contracts
	// are part of this property's proof and are discharged here (their untagged clauses and
	// those tagged for this property), not left to another property's run
	P.proveAll = map[*ssa.Function]bool{}
	nDirect := len(fns)
	for i := 0; i < len(fns); i++ {
		var visit func(f *ssa.Function)
		add := func(g *ssa.Function) {
			if g == nil || inFns[g] || g.Blocks == nil || !fnInModule(g) {
				return
			}
			ct := P.Contracts[g]
			if ct == nil || ct.Trusted {
				return
			}
			inFns[g] = true
			P.proveAll[g] = true
			fns = append(fns, g)
		}
		visit = func(f *ssa.Function) {
			for _, b := range f.Blocks {
				for _, in := range b.Instrs {
					// function values (literals without captured variables, method values)
					for _, op := range in.Operands(nil) {
						if op != nil && *op != nil {
							if fv, ok := (*op).(*ssa.Function); ok {
								add(fv)
							}
						}
					}
					switch v := in.(type) {
					case ssa.CallInstruction:
						add(v.Common().StaticCallee())
						if v.Common().IsInvoke() {
							// every implementation in the module of an interface method under contract
							if ic := P.ifaceContract(v.Common()); ic != nil {
								for _, impl := range P.IfaceImpls[ic.Pkg+"."+ic.Name] {
									add(impl)
								}
							}
						}
					case *ssa.MakeClosure:
						add(v.Fn.(*ssa.Function))
					}
				}
			}
		}
		visit(fns[i])
	}
	_ = nDirect
	sort.Slice(fns, func(i, j int) bool { return fns[i].String() < fns[j].String() })
	for _, u := range P.Unbound {
		failedBind = append(failedBind, u)
	}
	for _, fn := range fns {
		if opt.Only != "" && !strings.Contains(relName(fn), opt.Only) {
			continue
		}
		rep := P.VerifyFunc(fn, P.Contracts[fn], true, 4096, opt.Prop)
		reports = append(reports, rep)
		obs = append(obs, rep.Obligations...)
	}
	// lemmas
	for _, l := range P.Spec.Lemmas {
		if hasProp(l.Props, opt.Prop) {
			if ob := P.lemmaObligation(l); ob != nil {
				obs = append(obs, ob)
			} else {
				failedBind = append(failedBind, "lemma "+l.Name)
			}
		}
	}
	// static (frame / ownership / call-graph) checks of the property
	statics := P.staticChecks(opt.Prop)
	obs = append(obs, statics...)
	// C02: zero-annotation safety sweep over every function of the module
	sweepFns := 0
	if opt.Prop == "C02" {
		for _, fn := range P.ModFuncs {
			if ct := P.Contracts[fn]; ct != nil && hasProp(ct.Props, "C02") {
				continue
			}
			if P.Contracts[fn] == nil && P.onlyInlined(fn) {
				continue // an unexported helper without contract that is executed inline at every call site
			}
			if opt.Only != "" && !strings.Contains(relName(fn), opt.Only) {
				continue
			}
			rep := P.VerifyFunc(fn, P.Contracts[fn], false, 2048, opt.Prop)
			reports = append(reports, rep)
			obs = append(obs, rep.Obligations...)
			sweepFns++
		}
	}
	genS := time.Since(start).Seconds() - loadS
	discharge(obs, outDir, timeout, order, 16)
	solveWall := time.Since(start).Seconds() - loadS - genS

	// group by name
	byName := map[string]*NamedResult{}
	var names []string
	solverTime := 0.0
	backendCount := map[string]int{}
	for _, ob := range obs {
		nr := byName[ob.Name]
		if nr == nil {
			nr = &NamedResult{Name: ob.Name, Kind: ob.Kind, Backends: map[string]int{}, Descr: ob.Descr, Pos: ob.Pos}
			byName[ob.Name] = nr
			names = append(names, ob.Name)
		}
		nr.Instances++
		if ob.Live {
			nr.LiveInstances++
		}
		if ob.Goal.IsTrue() {
			nr.Trivial = true
		}
		nr.TimeS += ob.Result.TimeS
		if ob.Result.TimeS > nr.MaxS {
			nr.MaxS = ob.Result.TimeS
		}
		solverTime += ob.Result.TimeS
		if ob.Result.Status == "unsat" {
			nr.Backends[ob.Result.Backend]++
			backendCount[ob.Result.Backend]++
		} else {
			nr.Failed = append(nr.Failed, ob)
		}
	}
	sort.Strings(names)

	known := loadKnownFindings(filepath.Join(opt.VerifDir, "KNOWN_FINDINGS.txt"))
	ledgerPath := filepath.Join(opt.VerifDir, "ledger", opt.Prop+".json")
	if opt.WriteLed {
		writeShapes(P, filepath.Join(opt.VerifDir, "ledger"))
		var led []string
		for _, n := range names {
			if contractLevel(byName[n].Kind) && len(byName[n].Failed) == 0 {
				led = append(led, n)
			}
		}
		os.MkdirAll(filepath.Dir(ledgerPath), 0o755)
		data, _ := json.MarshalIndent(led, "", " ")
		os.WriteFile(ledgerPath, append(data, '\n'), 0o644)
	}
	var ledger []string
	if data, err := os.ReadFile(ledgerPath); err == nil {
		json.Unmarshal(data, &ledger)
	}

	violations := 0
	var vacuous []string
	var knownHit []string
	replayDir := filepath.Join(opt.VerifDir, "out", "replays", opt.Prop)
	os.MkdirAll(replayDir, 0o755)
	report := func(name, reason string, ob *Obligation) {
		// known finding?
		for _, kf := range known {
			if !kf.Fixed && kf.Prop == opt.Prop && kf.Obligation == name {
				// a counterexample that cannot be classified (no model from the solver on this
				// run) is identified by its obligation alone
				if cl := classify(P, ob); kf.Class == "" || ob == nil || cl == "" || kf.Class == cl {
					line := fmt.Sprintf("KNOWN-FINDING: property=%s obligation=%s %s", opt.Prop, name, kf.Text)
					for _, k := range knownHit {
						if k == line {
							return
						}
					}
					knownHit = append(knownHit, line)
					fmt.Println(line)
					return
				}
			}
		}
		violations++
		path := filepath.Join(replayDir, fileSafe(name)+".txt")
		suffix := writeReplay(P, opt, path, name, reason, ob)
		fmt.Printf("VIOLATION property=%s replay=%s%s\n", opt.Prop, path, suffix)
	}
	for _, u := range failedBind {
		report("bind/"+u, "the contract cannot be bound to a function of the current tree (renamed or removed?)", nil)
	}
	for _, rep := range reports {
		if rep.Full {
			if len(rep.SpecErrors) > 0 {
				// one violation per function: the replay file lists every clause that no longer binds
				report(rep.Name+"/spec", "contract expressions cannot be evaluated against the current source (the contract names something that is gone or changed type):\n  "+strings.Join(uniq(rep.SpecErrors), "\n  "), nil)
			}
			if rep.Capped {
				report(rep.Name+"/out-of-reach", "path cap exceeded or engine failure: "+strings.Join(rep.Unsupported, "; "), nil)
			} else if len(rep.Unsupported) > 0 {
				report(rep.Name+"/unsupported", "construct outside the engine's subset: "+strings.Join(rep.Unsupported, "; "), nil)
			}
		}
	}
	discharged := 0
	for _, n := range names {
		nr := byName[n]
		if nr.Kind == "reach" && len(nr.Failed) < nr.Instances {
			// one feasible return path is enough
			nr.Failed = nil
		}
		if liveKinds[nr.Kind] && len(nr.Failed) == 0 && nr.LiveInstances == 0 && nr.Instances > 0 && !nr.Trivial {
			violations++
			vacuous = append(vacuous, n)
			path := filepath.Join(replayDir, fileSafe(n)+".vacuous.txt")
			os.WriteFile(path, []byte("property: "+opt.Prop+"\nobligation: "+n+"\nreason: every path instance of this clause has unsatisfiable assumptions: the clause is proved vacuously (an inconsistent contract or an infeasible path)\n"), 0o644)
			fmt.Printf("VIOLATION property=%s replay=%s no-failing-input-found\n", opt.Prop, path)
			continue
		}
		if len(nr.Failed) == 0 {
			discharged++
			continue
		}
		// report the first failed instance with a model if any
		var pick *Obligation
		for _, f := range nr.Failed {
			if f.Result.Status == "sat" {
				pick = f
				break
			}
		}
		if pick == nil {
			pick = nr.Failed[0]
		}
		reason := fmt.Sprintf("%d of %d path instances not discharged (%s)", len(nr.Failed), nr.Instances, pick.Result.Status)
		report(n, reason, pick)
	}
	present := map[string]bool{}
	for _, n := range names {
		present[n] = true
	}
	for _, l := range ledger {
		l2 := l
		for old, nw := range specTypeRenames {
			l2 = regexp.MustCompile(`\b`+regexp.QuoteMeta(old)+`\b`).ReplaceAllString(l2, nw) // a renamed struct type (shape.go)
		}
		if !present[l] && !present[l2] {
			report(l, "obligation recorded in the ledger was not generated from the current tree (vacuity guard)", nil)
		}
	}
	if len(obs) == 0 {
		report("no-obligations", "no obligation was generated for this property (vacuity guard)", nil)
	}

	// evidence
	wall := time.Since(start).Seconds()
	ev := Evidence{PropertyID: opt.Prop, Tier: opt.Tier, Seed: opt.Seed, Level: "proof", WallS: wall, Violations: violations}
	var fnNames []string
	var unsup, uncontracted, ext, ifaces, trusted, assumed, inlinedFns []string
	paths, dead, havocAll := 0, 0, 0
	for _, rep := range reports {
		if rep.Full {
			fnNames = append(fnNames, rep.Name)
		}
		paths += rep.Paths
		dead += rep.DeadEnds
		havocAll += rep.HavocAll
		for _, u := range rep.Unsupported {
			unsup = append(unsup, rep.Name+": "+u)
		}
		if rep.Full {
			uncontracted = append(uncontracted, rep.Uncontracted...)
			inlinedFns = append(inlinedFns, rep.Inlined...)
			ext = append(ext, rep.ExtUsed...)
			ifaces = append(ifaces, rep.IfaceUsed...)
			trusted = append(trusted, rep.TrustedUsed...)
			assumed = append(assumed, rep.Assumed...)
		}
	}
	var samples []map[string]interface{}
	for i, n := range names {
		if i%(len(names)/6+1) == 0 {
			nr := byName[n]
			samples = append(samples, map[string]interface{}{"obligation": n, "what": nr.Descr, "at": nr.Pos,
				"path_instances": nr.Instances, "solver_time_s": round3(nr.TimeS), "discharged_by": nr.Backends})
		}
	}
	failedNames := []string{}
	for _, n := range names {
		if len(byName[n].Failed) > 0 {
			failedNames = append(failedNames, n)
		}
	}
	tb := []string{
		"go/ssa (golang.org/x/tools v0.29.0, naive form) reflects the semantics of the gc toolchain for the subset",
		"SMT solvers: z3-new 5.1.0, cvc5 1.0.x, z3 4.8.12 (first definite answer wins)",
		"integers are mathematical Int with exact machine ranges; wrap-around modelled exactly where the contract says `wraps` and in the sweep",
	}
	tb = append(tb, propAssumptions(opt.Prop)...)
	slowest := 0.0
	for _, ob := range obs {
		if ob.Result.TimeS > slowest {
			slowest = ob.Result.TimeS
		}
	}
	ev.Coverage = map[string]interface{}{
		"obligations":              len(names) - len(knownHit),
		"discharged":               discharged,
		"obligations_including_known_findings": len(names),
		"vc_instances":             len(obs),
		"checker_cmd":              fmt.Sprintf("/verif/bin/gowp check --prop %s --tier %s", opt.Prop, opt.Tier),
		"trusted_base":             tb,
		"functions_under_contract": uniq(fnNames),
		"sweep_functions":          sweepFns,
		"by_backend":               backendCount,
		"solver_time_s":            round3(solverTime),
		"load_s":                   round3(loadS),
		"generate_s":               round3(genS),
		"solve_wall_s":             round3(solveWall),
		"paths":                    paths,
		"documented_panic_paths":   dead,
		"out_of_reach":             uniq(unsup),
		"callees_without_contract": uniq(uncontracted),
		"helpers_executed_inline":  uniq(inlinedFns),
		"external_assumed":         uniq(ext),
		"interface_contracts_used": uniq(ifaces),
		"trusted_contracts_used":   uniq(trusted),
		"assumed_clauses":          uniq(assumed),
		"havoc_all_calls":          havocAll,
		"known_findings":           knownHit,
		"failed":                   failedNames,
		"vacuous":                  vacuous,
		"samples":                  samples,
		"ledger_obligations":       len(ledger),
		"slowest_instance_s":       round3(slowest),
		"rebound":                  P.Rebound,
	}
	// blocks that lie only on paths whose assumptions are unsatisfiable: dead code, or an
	// inconsistency of the model (reported, so that a vacuous stretch of a function is visible)
	{
		blockRe := regexp.MustCompile(`(\d+)→(\d+)`)
		seen := map[string]map[string]bool{}
		live := map[string]map[string]bool{}
		for _, ob := range obs {
			if ob.Kind != "ensures" && ob.Kind != "iter" && ob.Kind != "inv" && ob.Kind != "reach" {
				continue
			}
			isLive := ob.Live
			if ob.Kind == "reach" {
				isLive = ob.Result.Status == "unsat" // (flipped: the guard passed, the path is feasible)
			}
			for _, m := range blockRe.FindAllStringSubmatch(ob.Trail, -1) {
				for _, b := range m[1:] {
					if seen[ob.Fn] == nil {
						seen[ob.Fn] = map[string]bool{}
						live[ob.Fn] = map[string]bool{}
					}
					seen[ob.Fn][b] = true
					if isLive {
						live[ob.Fn][b] = true
					}
				}
			}
		}
		var dead []string
		for fn, bs := range seen {
			for b := range bs {
				if !live[fn][b] {
					dead = append(dead, fn+": block "+b)
				}
			}
		}
		sort.Strings(dead)
		ev.Coverage["blocks_only_on_infeasible_paths"] = dead
		if opt.Verbose {
			for _, d := range dead {
				fmt.Printf("  never-live %s\n", d)
			}
		}
	}
	if opt.Tier == "thorough" {
		cross, disagree := 0, 0
		for _, ob := range obs {
			n := 0
			for _, t := range ob.Result.Tried {
				if strings.Contains(t, ":unsat:") || strings.Contains(t, ":sat:") {
					n++
				}
			}
			if n >= 2 {
				cross++
			}
			if ob.Result.Status == "disagree" {
				disagree++
			}
		}
		ev.Coverage["cross_checked_by_two_or_more_solvers"] = cross
		ev.Coverage["solver_disagreements"] = disagree
		if os.Getenv("GOWP_NO_SELFTEST") == "" && opt.Only == "" {
			ev.Coverage["must_fail_corpus"] = runMustFail(opt)
		}
	}
	as := append([]string{}, tb...)
	for _, x := range uniq(ext) {
		as = append(as, "assumed contract of external function (ext.go): "+x)
	}
	for _, x := range uniq(trusted) {
		as = append(as, "trusted (unverified) contract: "+x)
	}
	for _, x := range uniq(assumed) {
		as = append(as, "assumed clause (`assumes`): "+x)
	}
	for _, x := range uniq(unsup) {
		as = append(as, "out of reach, abstracted: "+x)
	}
	var fvNames []string
	for n := range P.ExtFuncValues {
		fvNames = append(fvNames, n)
	}
	sort.Strings(fvNames)
	for _, n := range fvNames {
		as = append(as, "external function(s) "+strings.Join(P.ExtFuncValues[n], ", ")+" stored as "+n+": assumed to satisfy that functype contract")
	}
	ev.Assumptions = as
	evPath := filepath.Join(opt.VerifDir, "evidence", opt.Prop+".json")
	os.MkdirAll(filepath.Dir(evPath), 0o755)
	data, _ := json.MarshalIndent(ev, "", " ")
	os.WriteFile(evPath, append(data, '\n'), 0o644)

	fmt.Printf("gowp: property %s tier %s: %d named obligations (%d VC instances), %d discharged, %d known findings, %d violations, %.1fs\n",
		opt.Prop, opt.Tier, len(names), len(obs), discharged, len(knownHit), violations, wall)
	if opt.Verbose {
		for _, n := range names {
			nr := byName[n]
			status := "ok"
			if len(nr.Failed) > 0 {
				status = "FAIL(" + nr.Failed[0].Result.Status + ")"
			}
			fmt.Printf("  %-8s %s  [%d inst, %.2fs, max %.2fs] %s\n", status, n, nr.Instances, nr.TimeS, nr.MaxS, nr.Pos)
			if os.Getenv("GOWP_DEBUG") == "trail" {
				for _, ob := range obs {
					if ob.Name == n {
						fmt.Printf("           path %s: %s (%s)\n", ob.Trail, ob.Result.Status, ob.Result.Backend)
					}
				}
			}
			if len(nr.Failed) > 0 && nr.Failed[0].Goal.Op == "and" {
				// which conjuncts fail?
				f := nr.Failed[0]
				for ci, cj := range f.Goal.Args {
					sub := &Obligation{Name: f.Name, Kind: f.Kind, Assume: f.Assume, Goal: cj}
					r := Solve(obligationScript(sub, false), filepath.Join(outDir, "split"), timeout, order)
					if r.Status != "unsat" {
						k := cj.Key()
						if len(k) > 220 {
							k = k[:220] + "…"
						}
						fmt.Printf("           conjunct %d not proved (%s): %s\n", ci+1, r.Status, k)
					}
				}
			}
		}
		for _, rep := range reports {
			if len(rep.Unsupported) > 0 || len(rep.SpecErrors) > 0 {
				fmt.Printf("  note %s: unsupported=%v specerrors=%v\n", rep.Name, rep.Unsupported, rep.SpecErrors)
			}
		}
	}
	if violations > 0 {
		return 1
	}
	return 0
}

func round3(f float64) float64 {
	v, _ := strconv.ParseFloat(fmt.Sprintf("%.3f", f), 64)
	return v
}

func uniq(in []string) []string {
	m := map[string]bool{}
	out := []string{}
	for _, s := range in {
		if !m[s] {
			m[s] = true
			out = append(out, s)
		}
	}
	sort.Strings(out)
	return out
}

// lemmaObligation: a closed formula over typed variables, proved once by the solver.
func (P *Program) lemmaObligation(l *Lemma) *Obligation {
	x := &Exec{P: P, inputs: map[string]string{}, params: map[string]Val{}, closedChain: map[string]*Term{}}
	x.extUsed, x.uncontracted, x.trustedUsed, x.ifaceUsed = map[string]bool{}, map[string]bool{}, map[string]bool{}, map[string]bool{}
	x.argTypes = map[string]types.Type{}
	st := newState()
	env := &Env{x: x, st: st, old: st, binds: map[string]specBinding{}, mode: "lemma"}
	for _, p := range P.Pkgs {
		if strings.HasSuffix(l.File, "contracts_verif.go") && filepath.Dir(l.File) == filepath.Dir(firstFile(p.GoFiles)) {
			env.pkg = p.Types
		}
	}
	for _, v := range l.Vars {
		t := Var("lv_"+v.Name, v.Sort)
		env.binds[v.Name] = specBinding{Val{T: t}, nil}
		x.inputs[t.Val] = v.Name
		switch v.Go {
		case "int64", "int":
			st.add(Le(BigLit(negPow(63)), t), Lt(t, BigLit(pow2(63))))
		case "uint", "uint64":
			st.add(Le(Zero, t), Lt(t, BigLit(pow2(64))))
		case "int32":
			st.add(Le(BigLit(negPow(31)), t), Lt(t, BigLit(pow2(31))))
		case "nat":
			st.add(Le(Zero, t))
		}
	}
	goal := env.eval(l.Expr)
	if env.err != nil {
		fmt.Fprintf(os.Stderr, "gowp: lemma %s: %v\n", l.Name, env.err)
		return nil
	}
	return &Obligation{Name: "lemma/" + l.Name, Fn: "lemma", Kind: "lemma", Pos: fmt.Sprintf("%s:%d", filepath.Base(l.File), l.Line),
		Descr: "lemma: " + l.Text, Assume: st.assume, Goal: goal.T, Inputs: x.inputs}
}

func firstFile(fs []string) string {
	if len(fs) == 0 {
		return ""
	}
	return fs[0]
}
