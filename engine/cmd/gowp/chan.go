package main

// Channels, select and goroutine start under sequential verification: ghost counters and
// flags per channel reference; receives yield values constrained by the channel-role invariant.

import (
	"fmt"
	"strings"
	"go/token"
	"go/types"

	"golang.org/x/tools/go/ssa"
)

// chanRole names the role of a channel from the way the SSA value is obtained.
func chanRole(v ssa.Value) string {
	t := types.Unalias(v.Type())
	if n, ok := t.(*types.Named); ok {
		return n.Obj().Name()
	}
	switch u := v.(type) {
	case *ssa.UnOp:
		if u.Op == token.MUL {
			if fa, ok := u.X.(*ssa.FieldAddr); ok {
				st := derefType(fa.X.Type())
				return structName(st) + "." + st.Underlying().(*types.Struct).Field(fa.Field).Name()
			}
			if a, ok := u.X.(*ssa.Alloc); ok && a.Comment != "" {
				// a local that only ever holds nil or one channel field is that field's role
				if r := localAliasRole(a); r != "" {
					return r
				}
				return shortName(a.Parent()) + "." + aliasedLocal(a.Parent(), a.Comment)
			}
			if fv, ok := u.X.(*ssa.FreeVar); ok {
				return shortName(fv.Parent()) + "." + aliasedLocal(fv.Parent(), fv.Name())
			}
		}
	case *ssa.Field:
		st := u.X.Type()
		return structName(st) + "." + st.Underlying().(*types.Struct).Field(u.Field).Name()
	case *ssa.Parameter:
		return shortName(u.Parent()) + "." + aliasedLocal(u.Parent(), u.Name())
	case *ssa.ChangeType:
		return chanRole(u.X)
	}
	return ""
}

// localAliasRole: every store into the local is nil or a load of one and the same channel
// field, and its address is used for nothing but loads and stores.
func localAliasRole(a *ssa.Alloc) string {
	role := ""
	if a.Referrers() == nil {
		return ""
	}
	for _, ref := range *a.Referrers() {
		switch r := ref.(type) {
		case *ssa.Store:
			if r.Addr != ssa.Value(a) {
				return "" // the address itself is stored somewhere
			}
			if c, ok := r.Val.(*ssa.Const); ok && c.IsNil() {
				continue
			}
			u, ok := r.Val.(*ssa.UnOp)
			if !ok || u.Op != token.MUL {
				return ""
			}
			fa, ok := u.X.(*ssa.FieldAddr)
			if !ok {
				return ""
			}
			st := derefType(fa.X.Type())
			rr := structName(st) + "." + st.Underlying().(*types.Struct).Field(fa.Field).Name()
			if role != "" && role != rr {
				return ""
			}
			role = rr
		case *ssa.UnOp:
			if r.Op != token.MUL {
				return ""
			}
		case *ssa.DebugRef:
		default:
			return "" // captured by a closure, passed on, ...
		}
	}
	return role
}

func lastKey(s Sort) string {
	return regHeap(ghLast+"$"+sanitize(string(s)), ArrSort(SInt, s))
}

func exprMentions(e *Expr, name string) bool {
	if e.Kind == "ident" && e.Name == name {
		return true
	}
	for _, a := range e.Args {
		if exprMentions(a, name) {
			return true
		}
	}
	return false
}

func lastRecvKey(s Sort) string {
	return regHeap("#lrecv$"+sanitize(string(s)), ArrSort(SInt, s))
}

func (x *Exec) sentCount(st *State, ch *Term) *Term {
	return Select(st.heapArr(ghSent, heapSorts[ghSent]), ch)
}

func (x *Exec) recordSend(st *State, ch, v *Term) {
	arr := st.heapArr(ghSent, heapSorts[ghSent])
	st.heap[ghSent] = Store(arr, ch, Add(Select(arr, ch), One))
	lk := lastKey(v.Sort)
	st.heap[lk] = Store(st.heapArr(lk, heapSorts[lk]), ch, v)
	tot := st.ghostInt("#sends")
	st.ghost["#sends"] = Add(tot, One)
}

func (x *Exec) doSend(st *State, in ssa.Instruction, chv, v Val, chSSA ssa.Value, vt types.Type) {
	ch := x.term(st, chv, chSSA.Type())
	val := x.term(st, v, vt)
	if x.full {
		role := chanRole(chSSA)
		if x.P.mayBeClosed(chSSA.Type()) {
			// (roles no function of the module ever closes cannot panic on send)
			x.oblige(st, "snd", fmt.Sprintf("#%d", x.ordinal("snd", in)), Not(x.closedAt(st, st.heapArr(ghClosed, heapSorts[ghClosed]), ch)), in.Pos(),
				"send on a channel that is not closed (role "+role+")")
		}
		x.checkChanInv(st, in, role, val, vt)
	}
	x.recordSend(st, ch, val)
	// a message after which the receiving side closes the channel (chan <role> closing <pred>):
	// from the sender's point of view the channel is closed from here on
	if ct := x.P.ChanInv[chanRole(chSSA)]; ct != nil {
		for _, cl := range ct.Requires {
			t, ok := x.evalSpecWith(st, cl.Expr, "inv", map[string]specBinding{"v": {Val{T: val}, vt}})
			if ok {
				arr := st.heapArr(ghClosed, heapSorts[ghClosed])
				st.heap[ghClosed] = Store(arr, ch, Or(t, x.closedAt(st, arr, ch)))
			}
		}
	}
	x.yield(st)
}

// checkChanInv: the role invariant is an obligation at every send site under contract.
func (x *Exec) checkChanInv(st *State, in ssa.Instruction, role string, v *Term, vt types.Type) {
	ct := x.P.ChanInv[role]
	if ct == nil {
		return
	}
	for _, cl := range ct.Ensures {
		t, ok := x.evalSpecWith(st, cl.Expr, "inv", map[string]specBinding{"v": {Val{T: v}, vt}})
		if ok {
			x.oblige(st, "chaninv", fmt.Sprintf("#%d:%s", x.ordinal("chaninv", in), role), t, in.Pos(), "channel invariant of role "+role+": "+cl.Text)
		}
	}
}

func (x *Exec) assumeChanInv(st *State, role string, v *Term, vt types.Type, guard *Term, ch *Term, cht types.Type) {
	ct := x.P.ChanInv[role]
	if ct == nil {
		return
	}
	if len(ct.Assumes) > 0 {
		x.trustedUsed["chan "+role+" (assumed clause)"] = true
	}
	binds := map[string]specBinding{"v": {Val{T: v}, vt}, "ch": {Val{T: ch}, cht}}
	if x.recvSelf != nil {
		binds["self"] = *x.recvSelf
	}
	for _, cl := range ct.Ensures {
		t, ok := x.evalSpecWith(st, cl.Expr, "inv", binds)
		if ok {
			st.add(Implies(guard, t)) // about a delivered value
		}
	}
	for _, cl := range ct.Assumes {
		t, ok := x.evalSpecWith(st, cl.Expr, "inv", binds)
		if ok {
			if strings.Contains(cl.Text, "v") && exprMentions(cl.Expr, "v") {
				st.add(Implies(guard, t))
			} else {
				st.add(t) // about the channel itself: holds for every completed receive, closed or not
			}
		}
	}
}

// yield: a blocking operation lets other goroutines run; cells shared with closures that
// write them may change.
func (x *Exec) yield(st *State) {
	for a := range x.shared {
		if _, ok := st.cells[a]; ok && !x.heapCls[a] {
			t := derefType(a.Type())
			nv := x.freshVar("shared_"+a.Comment, sortOfStatic(t))
			st.cells[a] = nv
			x.enterFacts(st, nv, t)
		}
	}
}

func (x *Exec) doRecv(st *State, u *ssa.UnOp, chv Val, chSSA ssa.Value, commaOk bool) {
	ch := x.term(st, chv, chSSA.Type())
	et := chSSA.Type().Underlying().(*types.Chan).Elem()
	v := x.freshVar("recv", sortOfStatic(et))
	ok := True
	if commaOk && x.P.mayBeClosed(chSSA.Type()) {
		ok = x.freshVar("recv_ok", SBool)
		// a receive yields !ok only from a closed channel: another goroutine may have closed it
		// since we last looked, so this is something the receiver learns, not a constraint on ok
		carr := st.heapArr(ghClosed, heapSorts[ghClosed])
		st.heap[ghClosed] = Store(carr, ch, Or(x.closedAt(st, carr, ch), Not(ok)))
		st.add(Implies(Not(ok), Eq(v, zeroOf(et))))
	}
	if ct := x.P.ChanInv[chanRole(chSSA)]; ct != nil && neverSent(ct) {
		// nothing is ever sent on this role: the receive completes because the channel is closed
		ok = False
		st.add(Eq(v, zeroOf(et)))
	}
	if ct := x.P.ChanInv[chanRole(chSSA)]; ct != nil && len(ct.Requires) > 0 && commaOk {
		// role with a closing message: nothing is sent after it (obligation on the sender side),
		// so once the receiver has closed the channel it is empty
		st.add(Implies(x.closedAt(st, st.heapArr(ghClosed, heapSorts[ghClosed]), ch), Not(ok)))
	}
	x.recvFacts(st, chSSA, ch, v, et, ok)
	if commaOk {
		st.regs[u] = Val{Tup: []Val{{T: v}, {T: ok}}}
	} else {
		st.regs[u] = Val{T: v}
	}
	x.yield(st)
}

// selfOfChan: the object whose field the channel is (b for b.bsOk): `self` in channel clauses.
func selfOfChan(st *State, chSSA ssa.Value) *specBinding {
	if u, isU := chSSA.(*ssa.UnOp); isU {
		if fa, isFA := u.X.(*ssa.FieldAddr); isFA {
			if bv, has := st.regs[fa.X]; has && bv.T != nil {
				return &specBinding{Val{T: bv.T}, fa.X.Type()}
			}
		}
	}
	return nil
}

// neverSent: the role's invariant is literally `false` - no send can be proved, so a receive
// that completes has seen the channel closed.
func neverSent(ct *Contract) bool {
	for _, cl := range ct.Ensures {
		if cl.Expr != nil && cl.Expr.Kind == "bool" && cl.Expr.Lit == "false" {
			return true
		}
	}
	return false
}

func (x *Exec) recvFacts(st *State, chSSA ssa.Value, ch, v *Term, et types.Type, ok *Term) {
	x.recvSelf = selfOfChan(st, chSSA)
	defer func() { x.recvSelf = nil }()
	if ct := x.P.ChanInv[chanRole(chSSA)]; ct != nil && len(ct.OnClose) > 0 {
		carr := st.heapArr(ghClosed, heapSorts[ghClosed])
		if neverSent(ct) {
			st.heap[ghClosed] = Store(carr, ch, True) // learned: only a close completes this receive
		}
		binds := map[string]specBinding{"ch": {Val{T: ch}, chSSA.Type()}}
		if x.recvSelf != nil {
			binds["self"] = *x.recvSelf
		}
		closedNow := x.closedAt(st, st.heapArr(ghClosed, heapSorts[ghClosed]), ch)
		for _, cl := range ct.OnClose {
			if t, okk := x.evalSpecWith(st, cl.Expr, "inv", binds); okk {
				st.add(Implies(closedNow, t))
			}
		}
	}
	st.add(rangeFacts(v, et)...)
	x.allocFactsLoose(st, v, et)
	x.typeInvFacts(st, v, et)
	x.assumeChanInv(st, chanRole(chSSA), v, et, ok, ch, chSSA.Type())
	arr := st.heapArr(ghRecvd, heapSorts[ghRecvd])
	// recvd counts completed receive operations (a receive from a closed channel completes too)
	st.heap[ghRecvd] = Store(arr, ch, Add(Select(arr, ch), One))
	lk := lastRecvKey(v.Sort)
	la := st.heapArr(lk, heapSorts[lk])
	st.heap[lk] = Store(la, ch, Ite(ok, v, Select(la, ch)))
}

// allocFactsLoose: a received reference may have been allocated by another goroutine after
// this function's last allocation; only non-negativity is known. (Freshness of this
// function's own later allocations still holds: newRef picks above everything seen.)
func (x *Exec) allocFactsLoose(st *State, v *Term, t types.Type) {
	if isRefLike(t) || isIfaceT(t) {
		top := st.ghostInt("top")
		nt := x.freshVar("top", SInt)
		st.add(Ge(nt, top), Le(v, nt))
		st.ghost["top"] = nt
	}
}

func isIfaceT(t types.Type) bool {
	_, ok := t.Underlying().(*types.Interface)
	return ok
}

func (x *Exec) doSelect(st *State, s *ssa.Select) bool {
	// nondeterministic choice over the cases (and default when non-blocking)
	n := len(s.States)
	type alt struct{ idx int }
	var alts []int
	for i := 0; i < n; i++ {
		alts = append(alts, i)
	}
	if !s.Blocking {
		alts = append(alts, -1)
	}
	b := s.Block()
	var rest []ssa.Instruction
	for k, in := range b.Instrs {
		if in == ssa.Instruction(s) {
			rest = b.Instrs[k+1:]
		}
	}
	for ai, idx := range alts {
		var cur *State
		if ai == len(alts)-1 {
			cur = st
		} else {
			cur = st.clone()
		}
		cur.trail = append(cur.trail, fmt.Sprintf("sel@%d=%d", b.Index, idx))
		if idx >= 0 {
			// a case on a nil channel is never ready
			sc := s.States[idx]
			cur.add(Neq(x.term(cur, x.val(cur, sc.Chan), sc.Chan.Type()), Zero))
		}
		tup := []Val{{T: IntLit(int64(idx))}, {T: False}}
		// receive slots
		for i, sc := range s.States {
			if sc.Dir == types.RecvOnly {
				et := sc.Chan.Type().Underlying().(*types.Chan).Elem()
				if i == idx {
					ch := x.term(cur, x.val(cur, sc.Chan), sc.Chan.Type())
					v := x.freshVar("recv", sortOfStatic(et))
					ok := x.freshVar("recv_ok", SBool)
					if !x.P.mayBeClosed(sc.Chan.Type()) {
						cur.add(ok)
					}
					carr := cur.heapArr(ghClosed, heapSorts[ghClosed])
					cur.heap[ghClosed] = Store(carr, ch, Or(x.closedAt(cur, carr, ch), Not(ok)))
					cur.add(Implies(Not(ok), Eq(v, zeroOf(et))))
					x.recvFacts(cur, sc.Chan, ch, v, et, ok)
					tup[1] = Val{T: ok}
					tup = append(tup, Val{T: v})
				} else {
					tup = append(tup, Val{T: zeroOf(et)})
				}
			}
		}
		if idx >= 0 && s.States[idx].Dir == types.SendOnly {
			sc := s.States[idx]
			x.doSend(cur, s, x.val(cur, sc.Chan), x.val(cur, sc.Send), sc.Chan, sc.Send.Type())
		} else {
			x.yield(cur)
		}
		if x.ct != nil && idx >= 0 {
			// a contract may state that a case cannot be taken (ready/blocked ghost facts) via
			// requires clauses over closed(); a receive from a channel known never to deliver
			// stays possible: no pruning here.
		}
		cur.regs[s] = Val{Tup: tup}
		ok := true
		for _, in := range rest {
			if !x.step(cur, in) {
				ok = false
				break
			}
		}
		_ = ok
	}
	return false
}

func (x *Exec) doGo(st *State, g *ssa.Go) {
	name := "?"
	if callee := g.Call.StaticCallee(); callee != nil {
		name = relName(callee)
	} else if g.Call.IsInvoke() {
		name = g.Call.Method.Name()
	}
	key := ghSpawn + "$" + name
	st.ghost[key] = Add(st.ghostInt(key), One)
	st.ghost[ghSpawn] = Add(st.ghostInt(ghSpawn), One)
	// a go statement is an event of the activation's call clock: when("go f") orders it with calls
	st.ghost[ghClock] = Add(st.ghostInt(ghClock), One)
	st.ghost[ghWhen+"go "+name] = st.ghost[ghClock]
	if _, seen := st.ghost[ghFirst+"go "+name]; !seen {
		st.ghost[ghFirst+"go "+name] = st.ghost[ghClock]
	}
	// stability rule: a started goroutine may only rely on stable facts; its preconditions
	// are checked against the current state with unstable ghost facts erased.
	if x.full {
		if callee := g.Call.StaticCallee(); callee != nil {
			if ct := x.P.Contracts[callee]; ct != nil && len(ct.Requires) > 0 {
				x.checkGoPre(st, g, callee, ct)
			}
		}
	}
}


// shortName: the function's bare name as channel roles use it - of the name its contract is
// written under when the function was renamed or renumbered (shape.go).
func shortName(fn *ssa.Function) string {
	if a, ok := nameAlias[fn]; ok {
		if i := strings.LastIndex(a, "."); i >= 0 && !strings.HasSuffix(a, "~") {
			return a[i+1:]
		}
		return strings.TrimSuffix(a, "~")
	}
	return fn.Name()
}
