package main

import (
	"os"
	"fmt"
	"go/token"
	"go/types"
	"sort"
	"strings"

	"golang.org/x/tools/go/ssa"
)

func (x *Exec) doCall(st *State, site ssa.Instruction, c *ssa.CallCommon, res ssa.Value) bool {
	var args []Val
	for _, a := range c.Args {
		args = append(args, x.val(st, a))
	}
	var fnv Val
	if _, isB := c.Value.(*ssa.Builtin); !isB {
		fnv = x.val(st, c.Value)
	}
	return x.applyCall(st, site, c, fnv, args, res)
}

func (x *Exec) setResult(st *State, res ssa.Value, v Val) {
	if res != nil {
		st.regs[res] = v
	}
}

// freshResult builds an unconstrained (type-invariant only) result for a signature.
func (x *Exec) freshResult(st *State, sig *types.Signature, hint string) Val {
	rs := sig.Results()
	mk := func(t types.Type) Val {
		v := x.freshVar("ret_"+hint, sortOfStatic(t))
		st.add(rangeFacts(v, t)...)
		x.allocFactsLoose(st, v, t)
		x.typeInvFacts(st, v, t)
		return Val{T: v}
	}
	switch rs.Len() {
	case 0:
		return Val{}
	case 1:
		return mk(rs.At(0).Type())
	}
	var tup []Val
	for i := 0; i < rs.Len(); i++ {
		tup = append(tup, mk(rs.At(i).Type()))
	}
	return Val{Tup: tup}
}

const (
	ghClock = "#call$!clock"
	ghWhen  = "#ret$!when$"
	ghFirst = "#ret$!first$"
)

func (x *Exec) countCall(st *State, name string, args []Val, c *ssa.CallCommon) {
	x.lastCallName = name
	if os.Getenv("GOWP_DEBUG") == "records" {
		fmt.Fprintf(os.Stderr, "record %s: %s (%d args)\n", relName(x.fn), name, len(args))
	}
	k := "#call$" + name
	st.ghost[k] = Add(st.ghostInt(k), One)
	// a logical clock of the activation's calls: when("f") is its value at the last call of f
	st.ghost[ghClock] = Add(st.ghostInt(ghClock), One)
	st.ghost[ghWhen+name] = st.ghost[ghClock]
	if _, seen := st.ghost[ghFirst+name]; !seen {
		st.ghost[ghFirst+name] = st.ghost[ghClock]
	}
	for i, a := range args {
		if a.T != nil {
			k := fmt.Sprintf("#arg$%s$%d", name, i)
			st.ghost[k] = a.T
			// static type of the argument (for indexing / field access in contracts)
			j := i
			if c.IsInvoke() {
				j = i - 1
			}
			if j >= 0 && j < len(c.Args) {
				x.argTypes[k] = c.Args[j].Type()
			} else if c.IsInvoke() && i == 0 {
				x.argTypes[k] = c.Value.Type()
			}
		}
	}
}

// applyCall applies a call and records its results as ghost values (returned("name", i)).
func (x *Exec) applyCall(st *State, site ssa.Instruction, c *ssa.CallCommon, fnv Val, args []Val, res ssa.Value) bool {
	ok := x.applyCallInner(st, site, c, fnv, args, res)
	if ok && res != nil {
		if name := x.lastCallName; name != "" {
			if rv, has := st.regs[res]; has {
				if rv.Tup != nil {
					for i, e := range rv.Tup {
						if e.T != nil {
							k := fmt.Sprintf("#ret$%s$%d", name, i)
							st.ghost[k] = e.T
							if tt, ok := res.Type().(*types.Tuple); ok && i < tt.Len() {
								x.argTypes[k] = tt.At(i).Type()
							}
						}
					}
				} else if rv.T != nil {
					k := fmt.Sprintf("#ret$%s$0", name)
					st.ghost[k] = rv.T
					x.argTypes[k] = res.Type()
				}
			}
		}
	}
	return ok
}

func (x *Exec) applyCallInner(st *State, site ssa.Instruction, c *ssa.CallCommon, fnv Val, args []Val, res ssa.Value) bool {
	x.lastCallName = ""
	if b, ok := c.Value.(*ssa.Builtin); ok {
		return x.builtin(st, site, b, c, args, res)
	}
	sig := c.Signature()
	if callee := c.StaticCallee(); callee != nil {
		name := relName(callee)
		if !fnInModule(callee) {
			name = callee.String()
		}
		x.countCall(st, name, args, c)
		if !fnInModule(callee) || callee.Blocks == nil {
			if x.external(st, site, callee, c, args, res) {
				return true
			}
			x.setResult(st, res, x.freshResult(st, sig, callee.Name()))
			x.extUsed[callee.String()] = true
			return true
		}
		if ct := x.P.Contracts[callee]; ct != nil {
			x.applyContract(st, site, callee, ct, args, res)
			x.yield(st)
			return true
		}
		// module function without a contract: inferred frame, unconstrained result
		x.uncontracted[relName(callee)] = true
		x.havoc(st, x.P.ModSet(callee))
		x.yield(st)
		x.setResult(st, res, x.freshResult(st, sig, callee.Name()))
		return true
	}
	if c.IsInvoke() {
		recvT := c.Value.Type()
		iname := types.TypeString(recvT, func(p *types.Package) string { return p.Name() }) + "." + c.Method.Name()
		x.countCall(st, iname, append([]Val{fnv}, args...), c)
		if x.full {
			x.oblige(st, "nil", fmt.Sprintf("#%d", x.ordinal("nil", site)), Neq(x.term(st, fnv, recvT), Zero), site.Pos(), "non-nil interface in call of "+iname)
		}
		if ct := x.P.ifaceContract(c); ct != nil {
			x.applyIfaceContract(st, site, c, ct, fnv, args, res)
			x.yield(st)
			return true
		}
		if x.externalIface(st, site, c, fnv, args, res) {
			return true
		}
		if !inModule(c.Method.Pkg()) {
			// interface declared outside the module: assumed not to write module state
			x.extUsed["iface "+iname] = true
			x.setResult(st, res, x.freshResult(st, sig, c.Method.Name()))
			x.yield(st)
			return true
		}
		x.havocAllCount++
		x.havoc(st, map[string]bool{modAll: true})
		x.yield(st)
		x.setResult(st, res, x.freshResult(st, sig, c.Method.Name()))
		return true
	}
	// dynamic call of a function value
	fname := x.dynName(c.Value)
	x.countCall(st, fname, args, c)
	if x.full {
		x.oblige(st, "nil", fmt.Sprintf("#%d", x.ordinal("nil", site)), Neq(x.term(st, fnv, c.Value.Type()), Zero), site.Pos(), "non-nil function value "+fname)
	}
	if ct := x.P.funcTypeContract(c); ct != nil {
		x.applyIfaceContract(st, site, c, ct, fnv, args, res)
		x.yield(st)
		return true
	}
	if ct := x.P.FuncType[fname]; ct != nil {
		x.applyIfaceContract(st, site, c, ct, fnv, args, res)
		x.yield(st)
		return true
	}
	if fnv.Fn == nil && fnv.T != nil && st.clos != nil {
		if cv, ok := st.clos[fnv.T.Key()]; ok {
			fnv = cv
		}
	}
	if fnv.Fn != nil && fnv.Fn.Blocks != nil && fnInModule(fnv.Fn) {
		// closure created in this very function and called directly
		if ct := x.P.Contracts[fnv.Fn]; ct != nil {
			x.applyContractClosure(st, site, fnv.Fn, ct, args, res, &fnv)
			return true
		}
		x.havoc(st, x.P.ModSet(fnv.Fn))
		x.yield(st)
		x.setResult(st, res, x.freshResult(st, sig, fname))
		return true
	}
	x.havocAllCount++
	x.havoc(st, map[string]bool{modAll: true})
	x.yield(st)
	x.setResult(st, res, x.freshResult(st, sig, fname))
	return true
}

// callEnv prepares the environment in which a callee's contract is read at a call site.
func (x *Exec) callEnv(st *State, old *State, callee *ssa.Function, names []string, tys []types.Type, args []Val) *Env {
	env := &Env{x: x, st: st, old: old, fn: callee, binds: map[string]specBinding{}, cells: false, mode: "call", scope: x.callScope}
	if callee != nil {
		env.pkg = fnPkg(callee)
	} else {
		env.pkg = fnPkg(x.fn)
	}
	for i, n := range names {
		if i < len(args) {
			env.binds[n] = specBinding{args[i], tys[i]}
		}
	}
	return env
}

func (x *Exec) applyContract(st *State, site ssa.Instruction, callee *ssa.Function, ct *Contract, args []Val, res ssa.Value) {
	x.applyContractClosure(st, site, callee, ct, args, res, nil)
}

// bindFreeVars binds the callee's captured variables to the current contents of the cells the
// closure was created over.
func (x *Exec) bindFreeVars(st *State, env *Env, callee *ssa.Function, binds []Val, into map[string]specBinding) {
	for i, fv := range callee.FreeVars {
		if i >= len(binds) || binds[i].Addr == nil {
			continue
		}
		t := derefType(fv.Type())
		into[fv.Name()] = specBinding{Val{T: x.load(st, binds[i].Addr)}, t}
	}
}

func (x *Exec) applyContractClosure(st *State, site ssa.Instruction, callee *ssa.Function, ct *Contract, args []Val, res ssa.Value, closure *Val) {
	var names []string
	var tys []types.Type
	for _, p := range callee.Params {
		names = append(names, p.Name())
		tys = append(tys, p.Type())
	}
	cname := relName(callee)
	x.nscope++
	x.callScope = fmt.Sprintf("#cs%d", x.nscope)
	env := x.callEnv(st, st, callee, names, tys, args)
	if closure != nil {
		x.bindFreeVars(st, env, callee, closure.Binds, env.binds)
	}
	for i, rq := range ct.Requires {
		t := env.eval(rq.Expr)
		if env.err != nil {
			x.specError(rq.Expr, env.err)
			env.err = nil
			continue
		}
		label := rq.Label
		if label == "" {
			label = fmt.Sprint(i + 1)
		}
		x.oblige(st, "pre", fmt.Sprintf("#%d:%s:%s", x.ordinal("pre", site), cname, label), t.T, site.Pos(),
			"precondition of "+cname+": "+rq.Text)
	}
	old := st.clone()
	if ct.HasMod {
		x.havocDeclared(st, old, callee, ct, env)
	} else {
		x.havoc(st, x.P.ModSet(callee))
	}
	if closure != nil {
		// captured variables the closure writes get new values
		x.yield(st)
	}
	rv := x.freshResult(st, callee.Signature, callee.Name())
	if ct.Pure && closure == nil && rv.T != nil {
		// a pure function of scalars is one uninterpreted function: equal arguments, equal results
		var ats []*Term
		for _, a := range args {
			ats = append(ats, a.T)
		}
		if app := x.pureApp(callee, ats); app != nil {
			st.add(Eq(rv.T, app))
		}
	}
	x.setResult(st, res, rv)
	env2 := x.callEnv(st, old, callee, names, tys, args)
	if closure != nil {
		x.bindFreeVars(st, env2, callee, closure.Binds, env2.binds)
		env2.oldBinds = map[string]specBinding{}
		for k, v := range env2.binds {
			env2.oldBinds[k] = v
		}
		x.bindFreeVars(old, env2, callee, closure.Binds, env2.oldBinds)
	}
	var results []Val
	if rv.Tup != nil {
		results = rv.Tup
	} else if rv.T != nil {
		results = []Val{rv}
	}
	env2.bindResults(callee, results)
	for _, en := range ct.Ensures {
		if en.inactive(x.prop) {
			continue // clause scoped to other properties (label@~Cxx): not used in this run
		}
		t := env2.eval(en.Expr)
		if env2.err != nil {
			if !strings.Contains(env2.err.Error(), "unknown identifier") && !strings.Contains(env2.err.Error(), "bound: no closure") {
				x.specError(en.Expr, env2.err)
			} // else: a clause about the callee's own locals says nothing to the caller
			env2.err = nil
			continue
		}
		st.add(t.T)
	}
	if ct.Trusted {
		x.trustedUsed[cname] = true
	}
}

// pureApp: the application pure$f(args) for a function whose parameters and single result
// are all of basic type (no heap dependence); nil otherwise.
func (x *Exec) pureApp(callee *ssa.Function, args []*Term) *Term {
	sig := callee.Signature
	if sig.Results().Len() != 1 || len(args) != len(callee.Params) {
		return nil
	}
	if _, ok := sig.Results().At(0).Type().Underlying().(*types.Basic); !ok {
		return nil
	}
	var sorts []Sort
	for i, p := range callee.Params {
		if _, ok := p.Type().Underlying().(*types.Basic); !ok || args[i] == nil {
			return nil
		}
		sorts = append(sorts, sortOfStatic(p.Type()))
		if args[i].Sort != sorts[i] {
			return nil
		}
	}
	name := "pure$" + fnPkg(callee).Name() + "$" + callee.Name()
	rs := sortOfStatic(sig.Results().At(0).Type())
	theU.DeclFunc(name, rs, sorts...)
	return App(name, rs, args...)
}

func (x *Exec) applyIfaceContract(st *State, site ssa.Instruction, c *ssa.CallCommon, ct *Contract, recv Val, args []Val, res ssa.Value) {
	sig := c.Signature()
	var names []string
	var tys []types.Type
	all := args
	if c.IsInvoke() {
		names = append(names, "self")
		tys = append(tys, c.Value.Type())
		all = append([]Val{recv}, args...)
	}
	for i := 0; i < sig.Params().Len(); i++ {
		n := sig.Params().At(i).Name()
		if i < len(ct.Params) {
			n = ct.Params[i]
		}
		names = append(names, n)
		tys = append(tys, sig.Params().At(i).Type())
	}
	x.nscope++
	x.callScope = fmt.Sprintf("#cs%d", x.nscope)
	env := x.callEnv(st, st, nil, names, tys, all)
	// a function-valued field called as x.f(...): `self` is the object x
	var selfB *specBinding
	if !c.IsInvoke() {
		if u, ok := c.Value.(*ssa.UnOp); ok {
			if fa, ok := u.X.(*ssa.FieldAddr); ok {
				if bv, ok := st.regs[fa.X]; ok && bv.T != nil {
					selfB = &specBinding{Val{T: bv.T}, fa.X.Type()}
					env.binds["self"] = *selfB
				}
			}
		}
	}
	for _, p := range x.P.Pkgs {
		if p.PkgPath == ct.Pkg {
			env.pkg = p.Types
		}
	}
	for i, rq := range ct.Requires {
		t := env.eval(rq.Expr)
		if env.err != nil {
			x.specError(rq.Expr, env.err)
			env.err = nil
			continue
		}
		label := rq.Label
		if label == "" {
			label = fmt.Sprint(i + 1)
		}
		x.oblige(st, "pre", fmt.Sprintf("#%d:%s:%s", x.ordinal("pre", site), ct.Name, label), t.T, site.Pos(),
			"precondition of "+ct.Name+": "+rq.Text)
	}
	old := st.clone()
	if ct.HasMod {
		x.havocDeclared(st, old, nil, ct, env)
	} else {
		x.havocAllCount++
		x.havoc(st, map[string]bool{modAll: true})
	}
	rv := x.freshResult(st, sig, ct.Name)
	x.setResult(st, res, rv)
	env2 := x.callEnv(st, old, nil, names, tys, all)
	env2.pkg = env.pkg
	if selfB != nil {
		env2.binds["self"] = *selfB
	}
	var results []Val
	if rv.Tup != nil {
		results = rv.Tup
	} else if rv.T != nil {
		results = []Val{rv}
	}
	for i, r := range results {
		b := specBinding{r, sig.Results().At(i).Type()}
		env2.binds[fmt.Sprintf("result%d", i)] = b
		if i == 0 {
			env2.binds["result"] = b
		}
	}
	for _, en := range ct.Ensures {
		t := env2.eval(en.Expr)
		if env2.err != nil {
			x.specError(en.Expr, env2.err)
			env2.err = nil
			continue
		}
		st.add(t.T)
	}
	x.ifaceUsed[ct.Name] = true
}

// havocDeclared: havoc exactly what a modifies clause allows. Locations (x.f) are updated
// with a store at the evaluated base (quantifier-free); wildcards replace the array.
func (x *Exec) havocDeclared(st *State, pre *State, callee *ssa.Function, ct *Contract, env *Env) {
	for _, e := range ct.Modifies {
		keys := x.P.modExprKeys(callee, ct, e)
		if e.Kind == "sel" {
			// location or wildcard?
			isWild := false
			if e.Args[0].Kind == "ident" {
				if _, bound := env.binds[e.Args[0].Name]; !bound && x.P.lookupTypeName(ct.Pkg, e.Args[0].Name) != nil {
					isWild = true
				}
			}
			if !isWild {
				pe := *env
				pe.st = pre
				base := pe.eval(e.Args[0])
				if pe.err != nil {
					x.specError(e, pe.err)
					continue
				}
				bt := derefType(base.Ty)
				stt, ok := bt.Underlying().(*types.Struct)
				if !ok {
					x.specError(e, fmt.Errorf("modifies: %s is not a struct field", e))
					continue
				}
				for i := 0; i < stt.NumFields(); i++ {
					if fieldIs(bt, stt.Field(i), e.Name) {
						k := regHeap(fieldKey(bt, i), heapSortField(bt, i))
						nv := x.freshVar("mod_"+e.Name, sortOfStatic(stt.Field(i).Type()))
						st.add(rangeFacts(nv, stt.Field(i).Type())...)
						x.allocFactsLoose(st, nv, stt.Field(i).Type())
						st.heap[k] = Store(st.heapArr(k, heapSorts[k]), base.T, nv)
					}
				}
				continue
			}
		}
		if e.Kind == "call" && len(e.Args) == 1 && e.Args[0].Kind != "str" && (e.Name == "sent" || e.Name == "closed" || e.Name == "recvd" || e.Name == "written" || e.Name == "cancelled") {
			pe := *env
			pe.st = pre
			ch := pe.eval(e.Args[0])
			if pe.err != nil {
				x.specError(e, pe.err)
				continue
			}
			switch e.Name {
			case "cancelled":
				arr := st.heapArr(ghCancelled, heapSorts[ghCancelled])
				nv := x.freshVar("cancelled", SBool)
				st.add(Implies(Select(arr, ch.T), nv)) // cancellation is permanent
				st.heap[ghCancelled] = Store(arr, ch.T, nv)
			case "written":
				nv := x.freshVar("written", SStr)
				x.strFacts(st, nv)
				x.bufSetT(st, ch.T, ch.Ty, nv)
			case "sent":
				arr := st.heapArr(ghSent, heapSorts[ghSent])
				nv := x.freshVar("sent", SInt)
				st.add(Ge(nv, Select(arr, ch.T)))
				st.heap[ghSent] = Store(arr, ch.T, nv)
				for h := range heapSorts {
					if strings.HasPrefix(h, ghLast+"$") {
						a := st.heapArr(h, heapSorts[h])
						st.heap[h] = Store(a, ch.T, x.freshVar("last", heapSorts[h].ArrElem()))
					}
				}
				st.ghost["#sends"] = x.freshVar("sends", SInt)
			case "recvd":
				arr := st.heapArr(ghRecvd, heapSorts[ghRecvd])
				nv := x.freshVar("recvd", SInt)
				st.add(Ge(nv, Select(arr, ch.T)))
				st.heap[ghRecvd] = Store(arr, ch.T, nv)
				for h := range heapSorts {
					if strings.HasPrefix(h, "#lrecv$") {
						a := st.heapArr(h, heapSorts[h])
						st.heap[h] = Store(a, ch.T, x.freshVar("lrecv", heapSorts[h].ArrElem()))
					}
				}
			case "closed":
				arr := st.heapArr(ghClosed, heapSorts[ghClosed])
				nv := x.freshVar("closed", SBool)
				st.add(Implies(x.closedAt(st, arr, ch.T), nv))
				st.heap[ghClosed] = Store(arr, ch.T, nv)
			}
			continue
		}
		m := map[string]bool{}
		for _, k := range keys {
			if strings.HasPrefix(k, "#BAD:") {
				x.specError(e, fmt.Errorf("cannot resolve modifies target"))
				continue
			}
			if i := strings.Index(k, ":"); i > 0 && (strings.HasPrefix(k, ghSent+":") || strings.HasPrefix(k, ghRecvd+":")) {
				x.havocTyped(st, k[:i], x.chanTag(ct.Pkg, k[i+1:]))
				continue
			}
			m[k] = true
		}
		x.havoc(st, m)
	}
}

// checkGoPre: stability rule. The preconditions of a function started with `go` must hold in
// the current state with every unstable ghost fact erased (closed stays closed; "not closed",
// counters and heap contents that other goroutines own may change before it runs).
func (x *Exec) checkGoPre(st *State, g *ssa.Go, callee *ssa.Function, ct *Contract) {
	cp := st.clone()
	x.havoc(cp, map[string]bool{ghClosed: true, ghSent: true, ghRecvd: true})
	var names []string
	var tys []types.Type
	for _, p := range callee.Params {
		names = append(names, p.Name())
		tys = append(tys, p.Type())
	}
	var args []Val
	for _, a := range g.Call.Args {
		args = append(args, x.val(st, a))
	}
	env := x.callEnv(cp, cp, callee, names, tys, args)
	if _, isB := g.Call.Value.(*ssa.Builtin); !isB && !g.Call.IsInvoke() {
		fv := x.val(st, g.Call.Value)
		if fv.Fn == nil && fv.T != nil && st.clos != nil {
			if cv, ok := st.clos[fv.T.Key()]; ok {
				fv = cv
			}
		}
		if fv.Fn == callee {
			x.bindFreeVars(cp, env, callee, fv.Binds, env.binds)
		}
	}
	for i, rq := range ct.Requires {
		t := env.eval(rq.Expr)
		if env.err != nil {
			x.specError(rq.Expr, env.err)
			env.err = nil
			continue
		}
		ob := len(x.obs)
		x.oblige(cp, "stable", fmt.Sprintf("#%d:%s:%d", x.ordinal("stable", g), relName(callee), i+1), t.T, g.Pos(),
			"precondition of goroutine "+relName(callee)+" is stable: "+rq.Text)
		_ = ob
	}
}

func (x *Exec) builtin(st *State, site ssa.Instruction, b *ssa.Builtin, c *ssa.CallCommon, args []Val, res ssa.Value) bool {
	switch b.Name() {
	case "ssa:deferstack":
		x.setResult(st, res, Val{T: Zero})
	case "len":
		t := c.Args[0].Type()
		v := x.term(st, args[0], t)
		switch u := t.Underlying().(type) {
		case *types.Slice:
			if isByteSlice(t) {
				x.setResult(st, res, Val{T: x.slenOf(st, v)})
			} else {
				x.setResult(st, res, Val{T: sliceAcc(v, 2)})
			}
		case *types.Basic:
			x.setResult(st, res, Val{T: x.slenOf(st, v)})
		case *types.Array:
			x.setResult(st, res, Val{T: IntLit(u.Len())})
		case *types.Pointer:
			x.setResult(st, res, Val{T: IntLit(u.Elem().Underlying().(*types.Array).Len())})
		case *types.Map:
			theU.DeclFunc("maplen", SInt, SInt, ArrSort(sortOfStatic(u.Key()), SBool))
			dk, _ := mapKeys(t)
			r := App("maplen", SInt, v, Select(st.heapArr(dk, heapSorts[dk]), v))
			st.add(Ge(r, Zero))
			x.setResult(st, res, Val{T: r})
		case *types.Chan:
			r := x.freshVar("chanlen", SInt)
			st.add(Ge(r, Zero))
			x.setResult(st, res, Val{T: r})
		default:
			x.unsupported("len of " + t.String())
			x.setResult(st, res, Val{T: x.freshVar("len", SInt)})
		}
	case "cap":
		t := c.Args[0].Type()
		v := x.term(st, args[0], t)
		if _, ok := t.Underlying().(*types.Slice); ok && !isByteSlice(t) {
			x.setResult(st, res, Val{T: sliceAcc(v, 3)})
		} else {
			r := x.freshVar("cap", SInt)
			st.add(Ge(r, Zero))
			if isByteSlice(t) {
				st.add(Ge(r, x.slenOf(st, v)))
			}
			x.setResult(st, res, Val{T: r})
		}
	case "append":
		t := c.Args[0].Type()
		s := x.term(st, args[0], t)
		if isByteSlice(t) {
			var add *Term
			if len(args) > 1 {
				add = x.term(st, args[1], c.Args[1].Type())
			} else {
				add = strEmpty
			}
			x.setResult(st, res, Val{T: x.concat(st, s, add)})
			return true
		}
		et := t.Underlying().(*types.Slice).Elem()
		if len(args) < 2 {
			x.setResult(st, res, Val{T: s})
			return true
		}
		tv := x.term(st, args[1], c.Args[1].Type())
		// single-element varargs: `append(s, v)` lowers to a one-element array slice
		if one := x.singleVararg(st, c.Args[1]); one != nil {
			x.setResult(st, res, Val{T: x.appendSlice(st, et, s, tv, One, one)})
			return true
		}
		x.setResult(st, res, Val{T: x.appendSlice(st, et, s, tv, sliceAcc(tv, 2), nil)})
	case "copy":
		dst := x.term(st, args[0], c.Args[0].Type())
		src := x.term(st, args[1], c.Args[1].Type())
		var dl, sl *Term
		if dst.Sort == SStr {
			dl = x.slenOf(st, dst)
			if dst.Op == "var" && strings.HasPrefix(dst.Val, mkBytesHint+"!") && src.Sort == SStr {
				// the whole of a byte slice this activation made: every view of it now starts with
				// what was copied (same length, the rest unknown)
				sl0 := x.slenOf(st, src)
				n := Ite(Le(dl, sl0), dl, sl0)
				nd := x.freshVar(mkBytesHint, SStr)
				x.strFacts(st, nd)
				st.add(Eq(App("slen", SInt, nd), dl))
				theU.DeclFunc("substr", SStr, SStr, SInt, SInt)
				st.add(Implies(Le(sl0, dl), Eq(App("substr", SStr, nd, Zero, n), src)))
				st.substState(dst.Val, nd)
			} else {
				x.unsupported("copy into byte slice")
			}
		} else {
			dl = sliceAcc(dst, 2)
			et := c.Args[0].Type().Underlying().(*types.Slice).Elem()
			k := x.elemKey(et)
			st.heap[k] = Store(st.heapArr(k, heapSorts[k]), sliceAcc(dst, 0), x.freshVar("copied", ArrSort(SInt, sortOfStatic(et))))
		}
		if src.Sort == SStr {
			sl = x.slenOf(st, src)
		} else {
			sl = sliceAcc(src, 2)
		}
		x.setResult(st, res, Val{T: Ite(Le(dl, sl), dl, sl)})
	case "close":
		ch := x.term(st, args[0], c.Args[0].Type())
		arr := st.heapArr(ghClosed, heapSorts[ghClosed])
		if x.full {
			role := chanRole(c.Args[0])
			x.oblige(st, "cls", fmt.Sprintf("#%d", x.ordinal("cls", site)), And(Neq(ch, Zero), Not(x.closedAt(st, arr, ch))), site.Pos(),
				"close of a non-nil channel that is not closed yet (role "+role+")")
			if ct := x.P.ChanInv[role]; ct != nil {
				binds := map[string]specBinding{"ch": {Val{T: ch}, c.Args[0].Type()}}
				if sb := selfOfChan(st, c.Args[0]); sb != nil {
					binds["self"] = *sb
				}
				for i, cl := range ct.OnClose {
					if t, ok := x.evalSpecWith(st, cl.Expr, "inv", binds); ok {
						x.oblige(st, "clsinv", fmt.Sprintf("#%d:%s:%d", x.ordinal("clsinv", site), role, i+1), t, site.Pos(),
							"what role "+role+" promises once closed holds at the close: "+cl.Text)
					}
				}
			}
		}
		st.heap[ghClosed] = Store(arr, ch, True)
		k := "#closes"
		st.ghost[k] = Add(st.ghostInt(k), One)
	case "delete":
		mt := c.Args[0].Type()
		mv := x.term(st, args[0], mt)
		kv := x.term(st, args[1], c.Args[1].Type())
		x.mapStore(st, mt, mv, kv, nil, false)
	case "panic":
		x.deadEnds++
		x.endPath()
		return false
	case "print", "println":
	case "min", "max":
		a := x.term(st, args[0], c.Args[0].Type())
		for i := 1; i < len(args); i++ {
			b2 := x.term(st, args[i], c.Args[i].Type())
			if b.Name() == "min" {
				a = Ite(Le(a, b2), a, b2)
			} else {
				a = Ite(Ge(a, b2), a, b2)
			}
		}
		x.setResult(st, res, Val{T: a})
	case "recover":
		x.setResult(st, res, Val{T: Zero})
	case "ssa:wrapnilchk":
		x.setResult(st, res, args[0])
	default:
		x.unsupported("builtin " + b.Name())
		if res != nil {
			x.setResult(st, res, Val{T: x.freshVar("builtin", sortOfStatic(res.Type()))})
		}
	}
	return true
}

// singleVararg recognises the naive-form lowering of f(xs, v): new [1]T; &t[0] = v; slice t[:]
func (x *Exec) singleVararg(st *State, v ssa.Value) *Term {
	sl, ok := v.(*ssa.Slice)
	if !ok || sl.Low != nil || sl.High != nil {
		return nil
	}
	al, ok := sl.X.(*ssa.Alloc)
	if !ok {
		return nil
	}
	at, ok := derefType(al.Type()).Underlying().(*types.Array)
	if !ok || at.Len() != 1 {
		return nil
	}
	r, ok := st.objOf[al]
	if !ok {
		return nil
	}
	k := x.elemKey(at.Elem())
	return Select(Select(st.heapArr(k, heapSorts[k]), r), Zero)
}

// ---------------------------------------------------------------------------
// return: postconditions and frame

func (x *Exec) doReturn(st *State, r *ssa.Return) {
	x.returns++
	if x.full && x.returns <= 6 {
		// vacuity guard: some path to a return must be feasible (an inconsistent assumption
		// introduced by a contract would make every obligation after it trivially true)
		x.obs = append(x.obs, &Obligation{Name: relName(x.fn) + "/reach", Fn: relName(x.fn), Kind: "reach", Pos: x.P.pos(r.Pos()),
			Descr: "a return is reachable under the accumulated assumptions (vacuity guard)", Assume: append([]*Term{}, st.assume...), Goal: False,
			Trail: strings.Join(st.trail, " ")})
	}
	st.results = nil
	for _, v := range r.Results {
		st.results = append(st.results, Val{T: x.term(st, x.val(st, v), v.Type())})
	}
	if x.full {
		x.checkTypeInvs(st, r)
	}
	if x.ct != nil && x.full {
		for i, en := range x.ct.Ensures {
			if en.inactive(x.prop) {
				continue
			}
			t, ok := x.evalSpec(st, en.Expr, "post")
			if !ok {
				continue
			}
			label := en.Label
			if label == "" {
				label = fmt.Sprint(i + 1)
			}
			cp := st.clone()
			x.oblige(cp, "ensures", ":"+label, t, r.Pos(), "postcondition: "+en.Text)
		}
		if x.ct.HasMod {
			x.checkFrame(st, r)
		}
	}
	x.endPath()
}

// checkFrame: everything outside the declared modifies clause is unchanged for every object
// that existed at entry.
func (x *Exec) checkFrame(st *State, r *ssa.Return) {
	ct := x.ct
	allowedWild := map[string]bool{}
	allowedLoc := map[string][]*Term{}
	allowedTyped := map[string][]*Term{}
	for _, e := range ct.Modifies {
		keys := x.P.modExprKeys(x.fn, ct, e)
		isLoc := false
		if e.Kind == "sel" {
			wild := e.Args[0].Kind == "ident" && x.P.lookupTypeName(ct.Pkg, e.Args[0].Name) != nil && x.paramType(e.Args[0].Name) == nil
			if !wild {
				env := &Env{x: x, st: x.entry, old: x.entry, fn: x.fn, binds: map[string]specBinding{}, cells: true, mode: "pre", pkg: fnPkg(x.fn)}
				for n, v := range x.params {
					env.binds[n] = specBinding{v, x.paramType(n)}
				}
				base := env.eval(e.Args[0])
				if env.err == nil && len(keys) == 1 {
					allowedLoc[keys[0]] = append(allowedLoc[keys[0]], base.T)
					isLoc = true
				}
			}
		}
		if e.Kind == "call" && len(e.Args) == 1 && e.Args[0].Kind != "str" && (e.Name == "sent" || e.Name == "closed" || e.Name == "recvd" || e.Name == "written" || e.Name == "cancelled") {
			env := &Env{x: x, st: x.entry, old: x.entry, fn: x.fn, binds: map[string]specBinding{}, cells: true, mode: "pre", pkg: fnPkg(x.fn)}
			for n, v := range x.params {
				env.binds[n] = specBinding{v, x.paramType(n)}
			}
			ch := env.eval(e.Args[0])
			if env.err == nil {
				at := ch.T
				if e.Name == "written" {
					at = x.bufKeyT(x.entry, at, ch.Ty)
				}
				for _, k := range keys {
					allowedLoc[k] = append(allowedLoc[k], at)
				}
				isLoc = true
			}
		}
		if !isLoc {
			for _, k := range keys {
				if i := strings.Index(k, ":"); i > 0 && (strings.HasPrefix(k, ghSent+":") || strings.HasPrefix(k, ghRecvd+":")) {
					// typed wildcard: channels of one element type
					allowedTyped[k[:i]] = append(allowedTyped[k[:i]], x.chanTag(ct.Pkg, k[i+1:]))
					continue
				}
				allowedWild[k] = true
			}
		}
	}
	if allowedWild[modAll] {
		return
	}
	if st.epoch != x.entry.epoch {
		x.oblige(st.clone(), "frame", ":heap", False, r.Pos(), "a call with unknown effects (havoc of the whole heap) is incompatible with the declared modifies clause")
		return
	}
	var ks []string
	for k := range st.heap {
		ks = append(ks, k)
	}
	sort.Strings(ks)
	top0 := x.entry.ghostInt("top")
	for _, k := range ks {
		cur := st.heap[k]
		if strings.HasPrefix(k, ghLast) || strings.HasPrefix(k, "G$") && false {
			if allowedWild[ghLast] || allowedWild[ghSent] || len(allowedLoc[ghSent]) > 0 {
				continue
			}
		}
		if allowedWild[k] {
			continue
		}
		if k == ghClosed && !x.fnCloses() {
			continue // only learned at receives (a closed channel observed), not written
		}
		entryArr := x.entry.heapArr(k, heapSorts[k])
		if cur.Key() == entryArr.Key() {
			continue
		}
		if !cur.Sort.IsArray() {
			cp := st.clone()
			x.oblige(cp, "frame", ":"+k, Eq(cur, entryArr), r.Pos(), "global "+k+" unchanged (not in modifies)")
			continue
		}
		sk := x.freshVar("frame_r", cur.Sort.ArrKey())
		conds := []*Term{}
		if cur.Sort.ArrKey() == SInt {
			conds = append(conds, Le(sk, top0), Gt(sk, Zero))
		}
		lk := k
		if strings.HasPrefix(k, ghLast) {
			lk = ghSent
		}
		if strings.HasPrefix(k, "#lrecv$") {
			lk = ghRecvd
			if allowedWild[ghRecvd] {
				continue
			}
		}
		for _, b := range allowedLoc[lk] {
			conds = append(conds, Neq(sk, b))
		}
		for _, tg := range allowedTyped[lk] {
			theU.DeclFunc("chtype", SInt, SInt)
			conds = append(conds, Neq(App("chtype", SInt, sk), tg))
		}
		cp := st.clone()
		x.oblige(cp, "frame", ":"+k, Implies(And(conds...), Eq(Select(cur, sk), Select(entryArr, sk))), r.Pos(),
			"every pre-existing object's "+k+" outside the modifies clause is unchanged")
	}
	if !allowedWild[ghSpawn] {
		var gs []string
		for g := range st.ghost {
			if strings.HasPrefix(g, ghSpawn) {
				gs = append(gs, g)
			}
		}
		sort.Strings(gs)
		anyNamed := false
		for k := range allowedWild {
			if strings.HasPrefix(k, ghSpawn+"$") {
				anyNamed = true
			}
		}
		for _, g := range gs {
			if allowedWild[g] || (g == ghSpawn && anyNamed) {
				continue
			}
			cur := st.ghost[g]
			ent := x.entry.ghostInt(g)
			if cur.Key() != ent.Key() {
				x.oblige(st.clone(), "frame", ":"+g, Eq(cur, ent), r.Pos(), "no goroutine of this kind started ("+g+" not in modifies)")
			}
		}
	}
}

// checkTypeInvs: every object of a type with a declared invariant that this path allocated
// satisfies the invariant when the function returns.
func (x *Exec) checkTypeInvs(st *State, r *ssa.Return) {
	var allocs []*ssa.Alloc
	for a := range st.objOf {
		allocs = append(allocs, a)
	}
	for c := range st.cells {
		if a, ok := c.(*ssa.Alloc); ok && len(x.P.typeInvsOf(derefType(a.Type()))) > 0 {
			allocs = append(allocs, a)
		}
	}
	sort.Slice(allocs, func(i, j int) bool { return allocs[i].Pos() < allocs[j].Pos() })
	for _, a := range allocs {
		t := derefType(a.Type())
		for _, ti := range x.P.typeInvsOf(t) {
			self := specBinding{Val{T: st.objOf[a]}, a.Type()}
			if _, isObj := st.objOf[a]; !isObj {
				self = specBinding{Val{T: st.cells[a]}, t}
			}
			env := &Env{x: x, st: st, old: st, fn: x.fn, binds: map[string]specBinding{"self": self}, mode: "typeinv", pkg: x.P.pkgByPath(ti.Pkg)}
			g := env.eval(ti.Clause.Expr)
			if env.err != nil {
				x.specError(ti.Clause.Expr, env.err)
				continue
			}
			x.oblige(st.clone(), "typeinv", ":"+ti.Type, g.T, a.Pos(), "type invariant of "+ti.Type+" established by the allocating function: "+ti.Clause.Text)
		}
	}
}

// dynName names a function value by where it is read from: Struct.field for (elements of)
// function-valued fields, <function>.<variable> for locals, captured variables and parameters.
func (x *Exec) dynName(v ssa.Value) string { return dynNameOf(x.fn, v) }

// callRecordName: the name under which applyCallInner records a call (called/calledWith/
// returned); "" for builtins.
func callRecordName(fn *ssa.Function, c *ssa.CallCommon) string {
	if _, ok := c.Value.(*ssa.Builtin); ok {
		return ""
	}
	if callee := c.StaticCallee(); callee != nil {
		if !fnInModule(callee) {
			return callee.String()
		}
		return relName(callee)
	}
	if c.IsInvoke() {
		return types.TypeString(c.Value.Type(), func(p *types.Package) string { return p.Name() }) + "." + c.Method.Name()
	}
	return dynNameOf(fn, c.Value)
}

// havocLoopCalls: the call records of everything called inside a loop are unknown at its head
// (the count only grows).
func (x *Exec) havocLoopCalls(st *State, l *Loop) {
	names := map[string]bool{}
	for b := range l.Body {
		for _, in := range b.Instrs {
			if c, ok := in.(*ssa.Call); ok {
				if n := callRecordName(x.fn, c.Common()); n != "" {
					names[n] = true
				}
			}
			if g, ok := in.(*ssa.Go); ok {
				// go statements are events of the same clock (chan.go doGo)
				gn := "?"
				if callee := g.Call.StaticCallee(); callee != nil {
					gn = relName(callee)
				} else if g.Call.IsInvoke() {
					gn = g.Call.Method.Name()
				}
				names["go "+gn] = true
			}
		}
	}
	if len(names) > 0 {
		old := st.ghostInt(ghClock)
		nv := x.freshVar("clock", SInt)
		st.ghost[ghClock] = nv
		st.add(Ge(nv, old))
	}
	for _, n := range sortedKeys(names) {
		k := "#call$" + n
		old := st.ghostInt(k)
		nv := x.freshVar("calls", SInt)
		st.ghost[k] = nv
		st.add(Ge(nv, old))
		delete(st.ghost, ghWhen+n)
		if _, seen := st.ghost[ghFirst+n]; !seen {
			// the first call may happen in an iteration nothing is known about
			st.ghost[ghFirst+n] = x.freshVar("first", SInt)
		}
		for g := range st.ghost {
			if strings.HasPrefix(g, "#arg$"+n+"$") || strings.HasPrefix(g, "#ret$"+n+"$") {
				delete(st.ghost, g)
			}
		}
	}
}

func dynNameOf(fn *ssa.Function, v ssa.Value) string {
	switch u := v.(type) {
	case *ssa.UnOp:
		if u.Op == token.MUL {
			var a ssa.Value = u.X
			if ia, ok := a.(*ssa.IndexAddr); ok {
				a = ia.X
			}
			switch b := a.(type) {
			case *ssa.FieldAddr:
				stT := derefType(b.X.Type())
				return structName(stT) + "." + stT.Underlying().(*types.Struct).Field(b.Field).Name()
			case *ssa.Alloc:
				return relName(fn) + "." + aliasedLocal(fn, b.Comment)
			case *ssa.FreeVar:
				return relName(fn) + "." + aliasedLocal(fn, b.Name())
			}
		}
	case *ssa.Parameter:
		return relName(fn) + "." + aliasedLocal(fn, u.Name())
	case *ssa.Field:
		stT := u.X.Type()
		return structName(stT) + "." + stT.Underlying().(*types.Struct).Field(u.Field).Name()
	case *ssa.Index:
		if f, ok := u.X.(*ssa.Field); ok {
			stT := f.X.Type()
			return structName(stT) + "." + stT.Underlying().(*types.Struct).Field(f.Field).Name()
		}
	}
	return "dyn:" + v.Name()
}

// chanTag: the type tag of "chan T" for a type name resolved in a package.
func (x *Exec) chanTag(pkgPath, name string) *Term {
	t := x.P.resolveTypeName(pkgPath, name)
	if t == nil {
		x.specErrs = append(x.specErrs, "unknown channel type "+name)
		return IntLit(-1)
	}
	if ct, ok := t.Underlying().(*types.Chan); ok {
		t = types.NewChan(types.SendRecv, ct.Elem())
	}
	return IntLit(int64(x.P.typeTag(t)))
}

// havocTyped: channel ghosts of one channel type become unknown; every other channel keeps its
// value (quantified frame fact with a trigger on reads of the new array).
func (x *Exec) havocTyped(st *State, key string, tag *Term) {
	keys := []string{key}
	if key == ghSent {
		for h := range heapSorts {
			if strings.HasPrefix(h, ghLast+"$") {
				keys = append(keys, h)
			}
		}
	}
	if key == ghRecvd {
		for h := range heapSorts {
			if strings.HasPrefix(h, "#lrecv$") {
				keys = append(keys, h)
			}
		}
	}
	sort.Strings(keys)
	theU.DeclFunc("chtype", SInt, SInt)
	for _, k := range keys {
		old := st.heapArr(k, heapSorts[k])
		nw := x.freshVar(k, heapSorts[k])
		st.heap[k] = nw
		rv := Var("bv!c", SInt)
		body := Implies(Neq(App("chtype", SInt, rv), tag), Eq(Select(nw, rv), Select(old, rv)))
		f := &Term{Op: "forall", Args: []*Term{rv, body}, Sort: SBool}
		f.key = "(forall ((bv!c Int)) (! " + body.Key() + " :pattern (" + Select(nw, rv).Key() + ")))"
		st.add(f)
		if k == ghSent || k == ghRecvd {
			mono := Ge(Select(nw, rv), Select(old, rv))
			g := &Term{Op: "forall", Args: []*Term{rv, mono}, Sort: SBool}
			g.key = "(forall ((bv!c Int)) (! " + mono.Key() + " :pattern (" + Select(nw, rv).Key() + ")))"
			st.add(g)
		}
	}
}

// fnCloses: does the function (or a callee, per its inferred frame) close a channel?
func (x *Exec) fnCloses() bool {
	if x.closesMemo == 0 {
		x.closesMemo = 1
		if x.P.ModSet(x.fn)[ghClosed] {
			x.closesMemo = 2
		}
	}
	return x.closesMemo == 2
}
