package main

// Go types -> SMT sorts, zero values, and the range facts assumed wherever a value of a
// type enters a function (parameters, loads, call results, receives).

import (
	"fmt"
	"go/types"
	"math/big"
)

var theU = NewUniverse()

const sliceDT = "Slice"

func init() {
	theU.DeclDatatype(sliceDT, []string{"s_base", "s_off", "s_len", "s_cap"}, []Sort{SInt, SInt, SInt, SInt})
	theU.DeclFunc("slen", SInt, SStr)
	theU.DeclFunc("dw", SInt, SStr)
	theU.DeclFunc("sconcat", SStr, SStr, SStr)
	theU.extraAxioms = strAxioms
	theU.funcAxioms["sconcat"] = concatAxioms
	theU.DeclFunc("typeof", SInt, SInt)
	theU.DeclFunc("i2f", SReal, SInt)
	theU.DeclFunc("fadd", SReal, SReal, SReal)
	theU.DeclFunc("fsub", SReal, SReal, SReal)
	theU.DeclFunc("fmul", SReal, SReal, SReal)
	theU.DeclFunc("fdiv", SReal, SReal, SReal)
	theU.DefFunc("absr", SReal, "(ite (>= x0 0.0) x0 (- x0))", SReal)
	theU.DefFunc("absi", SInt, "(ite (>= x0 0) x0 (- x0))", SInt)
	theU.DefFunc("fround", SReal, "(ite (>= x0 0.0) (to_real (to_int (+ x0 0.5))) (- (to_real (to_int (+ (- x0) 0.5)))))", SReal)
	theU.DefFunc("iround", SInt, "(ite (>= x0 0.0) (to_int (+ x0 0.5)) (- (to_int (+ (- x0) 0.5))))", SReal)
	theU.DefFunc("ftrunc", SInt, "(ite (>= x0 0.0) (to_int x0) (- (to_int (- x0))))", SReal)
	theU.DefFunc("wrap", SInt, "(- (mod (+ x0 x2) (* 2 x2)) x2)", SInt, SInt, SInt) // wrap(x, unused, 2^(w-1)) signed
	theU.DefFunc("uwrap", SInt, "(mod x0 x1)", SInt, SInt)
	theU.DefFunc("tdiv", SInt, "(ite (>= x0 0) (ite (> x1 0) (div x0 x1) (- (div x0 (- x1)))) (ite (> x1 0) (- (div (- x0) x1)) (div (- x0) (- x1))))", SInt, SInt)
	theU.DefFunc("tmod", SInt, "(ite (>= x0 0) (mod x0 (ite (> x1 0) x1 (- x1))) (- (mod (- x0) (ite (> x1 0) x1 (- x1)))))", SInt, SInt)
}

func isByteSlice(t types.Type) bool {
	if s, ok := t.Underlying().(*types.Slice); ok {
		if b, ok := s.Elem().Underlying().(*types.Basic); ok && (b.Kind() == types.Byte || b.Kind() == types.Uint8) {
			return true
		}
	}
	return false
}

func sortOfStatic(t types.Type) Sort {
	t = types.Unalias(t)
	switch u := t.Underlying().(type) {
	case *types.Basic:
		switch {
		case u.Info()&types.IsBoolean != 0:
			return SBool
		case u.Info()&types.IsInteger != 0:
			return SInt
		case u.Info()&types.IsFloat != 0:
			return SReal
		case u.Info()&types.IsString != 0:
			return SStr
		}
		return SInt
	case *types.Pointer, *types.Chan, *types.Map, *types.Signature, *types.Interface:
		return SInt
	case *types.Slice:
		if isByteSlice(t) {
			return SStr
		}
		return Sort(sliceDT)
	case *types.Array:
		return ArrSort(SInt, sortOfStatic(u.Elem()))
	case *types.Struct:
		return Sort(structDT(t).Name)
	case *types.Tuple:
		return "TUPLE"
	}
	return SInt
}

var dtByName = map[string]*Datatype{}

func structDT(t types.Type) *Datatype {
	name := "S_" + structName(t)
	if d, ok := dtByName[name]; ok {
		return d
	}
	st := t.Underlying().(*types.Struct)
	var fields []string
	var sorts []Sort
	for i := 0; i < st.NumFields(); i++ {
		fn := st.Field(i).Name()
		if fn == "_" {
			fn = fmt.Sprintf("blank%d", i)
		}
		fields = append(fields, fmt.Sprintf("%s_%s", name, fn))
		sorts = append(sorts, sortOfStatic(st.Field(i).Type()))
	}
	if len(fields) == 0 {
		fields = []string{name + "_unit"}
		sorts = []Sort{SInt}
	}
	d := theU.DeclDatatype(name, fields, sorts)
	dtByName[name] = d
	return d
}

func ConstArr(s Sort, v *Term) *Term {
	return &Term{Op: "(as const " + string(s) + ")", Args: []*Term{v}, Sort: s}
}

func mkStruct(t types.Type, fields []*Term) *Term {
	d := structDT(t)
	if len(fields) == 0 {
		fields = []*Term{Zero}
	}
	return App("mk_"+d.Name, Sort(d.Name), fields...)
}

func structField(t types.Type, v *Term, i int) *Term {
	d := structDT(t)
	if v.Op == "mk_"+d.Name {
		return v.Args[i]
	}
	return App(d.Fields[i], d.Sorts[i], v)
}

func structUpdate(t types.Type, v *Term, i int, nv *Term) *Term {
	d := structDT(t)
	args := make([]*Term, len(d.Fields))
	for j := range d.Fields {
		if j == i {
			args[j] = nv
		} else {
			args[j] = structField(t, v, j)
		}
	}
	return App("mk_"+d.Name, Sort(d.Name), args...)
}

func mkSlice(base, off, ln, cp *Term) *Term {
	return App("mk_"+sliceDT, Sort(sliceDT), base, off, ln, cp)
}

func sliceAcc(v *Term, i int) *Term {
	if v.Op == "mk_"+sliceDT {
		return v.Args[i]
	}
	d := theU.datatypes[sliceDT]
	return App(d.Fields[i], SInt, v)
}

func zeroOf(t types.Type) *Term {
	t = types.Unalias(t)
	switch u := t.Underlying().(type) {
	case *types.Basic:
		switch {
		case u.Info()&types.IsBoolean != 0:
			return False
		case u.Info()&types.IsFloat != 0:
			return RealLit("0")
		case u.Info()&types.IsString != 0:
			return strEmpty
		}
		return Zero
	case *types.Slice:
		if isByteSlice(t) {
			return strEmpty
		}
		return mkSlice(Zero, Zero, Zero, Zero)
	case *types.Array:
		return ConstArr(sortOfStatic(t), zeroOf(u.Elem()))
	case *types.Struct:
		var fs []*Term
		for i := 0; i < u.NumFields(); i++ {
			fs = append(fs, zeroOf(u.Field(i).Type()))
		}
		return mkStruct(t, fs)
	}
	return Zero
}

var strEmpty = Var("str!empty", SStr)

func intRange(b *types.Basic) (lo, hi *big.Int, ok bool) {
	bits := uint(64)
	signed := true
	switch b.Kind() {
	case types.Int8:
		bits = 8
	case types.Int16:
		bits = 16
	case types.Int32, types.UntypedRune:
		bits = 32
	case types.Int, types.Int64, types.UntypedInt:
		bits = 64
	case types.Uint8:
		bits, signed = 8, false
	case types.Uint16:
		bits, signed = 16, false
	case types.Uint32:
		bits, signed = 32, false
	case types.Uint, types.Uint64, types.Uintptr:
		bits, signed = 64, false
	default:
		return nil, nil, false
	}
	if signed {
		h := pow2(bits - 1)
		return new(big.Int).Neg(h), new(big.Int).Sub(h, big.NewInt(1)), true
	}
	return big.NewInt(0), new(big.Int).Sub(pow2(bits), big.NewInt(1)), true
}

// rangeFacts returns the type invariant of a value of Go type t.
func rangeFacts(v *Term, t types.Type) []*Term {
	t = types.Unalias(t)
	switch u := t.Underlying().(type) {
	case *types.Basic:
		if u.Info()&types.IsInteger != 0 {
			if lo, hi, ok := intRange(u); ok {
				return []*Term{Le(BigLit(lo), v), Le(v, BigLit(hi))}
			}
		}
	case *types.Pointer, *types.Chan, *types.Map, *types.Interface:
		return []*Term{Ge(v, Zero)}
	case *types.Slice:
		if isByteSlice(t) {
			return nil
		}
		b, o, l, c := sliceAcc(v, 0), sliceAcc(v, 1), sliceAcc(v, 2), sliceAcc(v, 3)
		return []*Term{Ge(b, Zero), Ge(o, Zero), Ge(l, Zero), Ge(c, l), Le(c, BigLit(pow2(62))),
			Implies(Eq(b, Zero), Eq(c, Zero))}
	case *types.Struct:
		var out []*Term
		for i := 0; i < u.NumFields(); i++ {
			out = append(out, rangeFacts(structField(t, v, i), u.Field(i).Type())...)
		}
		return out
	case *types.Array:
		if u.Len() <= 4 {
			var out []*Term
			for i := int64(0); i < u.Len(); i++ {
				out = append(out, rangeFacts(Select(v, IntLit(i)), u.Elem())...)
			}
			return out
		}
	}
	return nil
}

func isRefLike(t types.Type) bool {
	switch t.Underlying().(type) {
	case *types.Pointer, *types.Chan, *types.Map, *types.Signature:
		return true
	}
	return false
}
