package main

// Shape snapshot: tolerance for edits that do not change behaviour but move the names the
// contracts are written against.
//
// `gowp ledger` records, for every function of the module, its parameter names, its named
// locals in declaration order with their types, its captured variables and a fingerprint
// (parent, signature, captured variables). At check time the contracts are bound with the help
// of that record:
//
//   - a closure contract `F$k` is bound to the sibling closure that still has the recorded
//     fingerprint when `F$k` itself no longer has it (a closure was added or removed earlier in
//     F and the compiler renumbered the rest);
//   - identifiers of a contract are renamed when the function's parameters, captured variables
//     or locals were renamed: parameters and captures by position, locals by aligning the
//     recorded declaration sequence with the current one (same type, same place).
//
// Both are heuristics that only ever help a contract to bind; a contract bound to the wrong
// thing fails its obligations instead of passing them. Every rebinding is listed in the
// evidence (`rebound`).

import (
	"encoding/json"
	"fmt"
	"go/types"
	"os"
	"path/filepath"
	"sort"
	"strings"

	"golang.org/x/tools/go/packages"
	"golang.org/x/tools/go/ssa"
)

type fnShape struct {
	Params   []string    `json:"params"`
	FreeVars []string    `json:"freevars,omitempty"`
	Locals   [][2]string `json:"locals,omitempty"` // name, type
	FP       string      `json:"fp"`
}

// shapeDir: where shape.json lives (set by the driver before loading; empty = no snapshot).
var shapeDir string

func shapeKey(fn *ssa.Function) string { return fnPkg(fn).Path() + "::" + relName(fn) }

func shapeOf(fn *ssa.Function) fnShape {
	var sh fnShape
	q := func(p *types.Package) string { return p.Name() }
	for _, p := range fn.Params {
		sh.Params = append(sh.Params, p.Name())
	}
	var fvt []string
	for _, fv := range fn.FreeVars {
		sh.FreeVars = append(sh.FreeVars, fv.Name())
		fvt = append(fvt, types.TypeString(fv.Type(), q))
	}
	for _, b := range fn.Blocks {
		for _, in := range b.Instrs {
			if a, ok := in.(*ssa.Alloc); ok && a.Comment != "" && !strings.HasPrefix(a.Comment, "complit") && a.Comment != "rangeindex" && a.Comment != "varargs" {
				isParam := false
				for _, p := range fn.Params {
					if p.Name() == a.Comment {
						isParam = true
					}
				}
				if !isParam {
					sh.Locals = append(sh.Locals, [2]string{a.Comment, types.TypeString(derefType(a.Type()), q)})
				}
			}
		}
	}
	parent := ""
	if fn.Parent() != nil {
		parent = "in " // only the fact of being nested: the parent's own name may have been renumbered
	}
	recv := ""
	if r := fn.Signature.Recv(); r != nil {
		recv = "(" + types.TypeString(r.Type(), q) + ") "
	}
	sh.FP = parent + recv + types.TypeString(fn.Signature, q) + " | " + strings.Join(fvt, ",")
	return sh
}

func writeShapes(P *Program, dir string) {
	m := map[string]fnShape{}
	for _, fn := range P.ModFuncs {
		m[shapeKey(fn)] = shapeOf(fn)
	}
	for _, pkg := range P.Pkgs {
		if !inModule(pkg.Types) {
			continue
		}
		sc := pkg.Types.Scope()
		for _, n := range sc.Names() {
			tn, ok := sc.Lookup(n).(*types.TypeName)
			if !ok {
				continue
			}
			st, ok := tn.Type().Underlying().(*types.Struct)
			if !ok {
				continue
			}
			var sh fnShape
			for i := 0; i < st.NumFields(); i++ {
				sh.Locals = append(sh.Locals, [2]string{st.Field(i).Name(), types.TypeString(st.Field(i).Type(), func(p *types.Package) string { return p.Name() })})
			}
			m["struct::"+pkg.Types.Path()+"."+n] = sh
		}
	}
	data, _ := json.MarshalIndent(m, "", " ")
	os.MkdirAll(dir, 0o755)
	os.WriteFile(filepath.Join(dir, "shape.json"), append(data, '\n'), 0o644)
}

func readShapes() map[string]fnShape {
	if shapeDir == "" {
		return nil
	}
	data, err := os.ReadFile(filepath.Join(shapeDir, "shape.json"))
	if err != nil {
		return nil
	}
	m := map[string]fnShape{}
	if json.Unmarshal(data, &m) != nil {
		return nil
	}
	return m
}

// closureParent: "F$1$2" -> "F$1"; "" when the name is not a closure's.
func closureParent(name string) string {
	i := strings.LastIndex(name, "$")
	if i < 0 {
		return ""
	}
	for _, c := range name[i+1:] {
		if c < '0' || c > '9' {
			return ""
		}
	}
	if i+1 == len(name) {
		return ""
	}
	return name[:i]
}

// rebindClosures maps contract names (pkg::rel) to functions, correcting renumbered closures.
func (P *Program) rebindClosures(byRel map[string]*ssa.Function, shapes map[string]fnShape, renamed map[string]*ssa.Function) map[string]*ssa.Function {
	out := map[string]*ssa.Function{}
	for k, v := range renamed {
		out[k] = v
	}
	if shapes == nil {
		return out
	}
	var names []string
	for _, c := range P.Spec.Contracts {
		if c.Kind == "func" && closureParent(c.Name) != "" {
			names = append(names, c.Pkg+"::"+c.Name)
		}
	}
	sort.Slice(names, func(i, j int) bool {
		if len(names[i]) != len(names[j]) {
			return len(names[i]) < len(names[j]) // parents before their children
		}
		return names[i] < names[j]
	})
	children := func(parent *ssa.Function) []*ssa.Function {
		return parent.AnonFuncs
	}
	claimed := map[*ssa.Function]string{}
	for _, key := range names {
		old, ok := shapes[key]
		if !ok {
			continue
		}
		pkgSep := strings.Index(key, "::")
		pkg, rel := key[:pkgSep], key[pkgSep+2:]
		parentRel := closureParent(rel)
		parent := out[pkg+"::"+parentRel]
		if parent == nil {
			parent = byRel[pkg+"::"+parentRel]
		}
		cur := byRel[key]
		if parent != nil {
			// the function of that ordinal under the (possibly rebound) parent
			want := rel[len(parentRel):] // "$k"
			cur = nil
			for _, ch := range children(parent) {
				if strings.HasSuffix(ch.Name(), want) && closureParent(ch.Name()) != "" && ch.Name()[strings.LastIndex(ch.Name(), "$"):] == want {
					cur = ch
				}
			}
		}
		if cur != nil && shapeOf(cur).FP == old.FP && claimed[cur] == "" {
			claimed[cur] = key
			if cur != byRel[key] {
				out[key] = cur
			}
			continue
		}
		if parent == nil {
			continue
		}
		var cands []*ssa.Function
		for _, ch := range children(parent) {
			if claimed[ch] == "" && shapeOf(ch).FP == old.FP {
				cands = append(cands, ch)
			}
		}
		// a sibling that another contract name still matches by ordinal and fingerprint is not a candidate
		var free []*ssa.Function
		for _, ch := range cands {
			k2 := pkg + "::" + relName(ch)
			if sh2, ok := shapes[k2]; ok && sh2.FP == shapeOf(ch).FP && k2 != key {
				if _, contracted := byRel[k2]; contracted {
					// its own name is recorded with the same fingerprint: leave it to that name
					hasContract := false
					for _, c := range P.Spec.Contracts {
						if c.Kind == "func" && c.Pkg+"::"+c.Name == k2 {
							hasContract = true
						}
					}
					if hasContract {
						continue
					}
				}
			}
			free = append(free, ch)
		}
		if len(free) == 1 {
			claimed[free[0]] = key
			out[key] = free[0]
			P.Rebound = append(P.Rebound, fmt.Sprintf("contract %s bound to %s (closures renumbered)", rel, relName(free[0])))
		}
	}
	return out
}

// renameForShape rewrites a contract's identifiers when the function's names moved.
func (P *Program) renameForShape(ct *Contract, fn *ssa.Function, old fnShape) {
	cur := shapeOf(fn)
	ren := map[string]string{}
	taken := map[string]bool{}
	for _, n := range cur.Params {
		taken[n] = true
	}
	for _, n := range cur.FreeVars {
		taken[n] = true
	}
	for _, l := range cur.Locals {
		taken[l[0]] = true
	}
	if len(old.Params) == len(cur.Params) {
		for i := range old.Params {
			if old.Params[i] != cur.Params[i] && !taken[old.Params[i]] {
				ren[old.Params[i]] = cur.Params[i]
			}
		}
	}
	if len(old.FreeVars) == len(cur.FreeVars) {
		for i := range old.FreeVars {
			if old.FreeVars[i] != cur.FreeVars[i] && !taken[old.FreeVars[i]] {
				ren[old.FreeVars[i]] = cur.FreeVars[i]
			}
		}
	}
	// locals: align the two declaration sequences on the entries that are unchanged (LCS),
	// then pair what lies between two anchors if it has the same types in the same order
	o, n := old.Locals, cur.Locals
	lcs := make([][]int, len(o)+1)
	for i := range lcs {
		lcs[i] = make([]int, len(n)+1)
	}
	for i := len(o) - 1; i >= 0; i-- {
		for j := len(n) - 1; j >= 0; j-- {
			if o[i] == n[j] {
				lcs[i][j] = lcs[i+1][j+1] + 1
			} else if lcs[i+1][j] >= lcs[i][j+1] {
				lcs[i][j] = lcs[i+1][j]
			} else {
				lcs[i][j] = lcs[i][j+1]
			}
		}
	}
	i, j := 0, 0
	var go_, gn [][2]string
	flush := func() {
		if len(go_) == len(gn) {
			okTypes := true
			for k := range go_ {
				if go_[k][1] != gn[k][1] {
					okTypes = false
				}
			}
			if okTypes {
				for k := range go_ {
					if go_[k][0] != gn[k][0] && !taken[go_[k][0]] {
						if prev, dup := ren[go_[k][0]]; !dup || prev == gn[k][0] {
							ren[go_[k][0]] = gn[k][0]
						}
					}
				}
			}
		}
		go_, gn = nil, nil
	}
	for i < len(o) && j < len(n) {
		switch {
		case o[i] == n[j]:
			flush()
			i++
			j++
		case lcs[i+1][j] >= lcs[i][j+1]:
			go_ = append(go_, o[i])
			i++
		default:
			gn = append(gn, n[j])
			j++
		}
	}
	go_ = append(go_, o[i:]...)
	gn = append(gn, n[j:]...)
	flush()
	if len(ren) == 0 {
		return
	}
	var pairs []string
	for a, b := range ren {
		pairs = append(pairs, a+"->"+b)
		// call records of function-valued locals are named after the variable
		// ("Counters.producer"): keep them under the name the contract uses
		if localAlias[fn] == nil {
			localAlias[fn] = map[string]string{}
		}
		localAlias[fn][b] = a
	}
	sort.Strings(pairs)
	P.Rebound = append(P.Rebound, fmt.Sprintf("contract of %s: identifiers renamed %s", relName(fn), strings.Join(pairs, ", ")))
	rn := func(e *Expr) *Expr { return renameIdentsShadow(e, ren) }
	rc := func(cls []*Clause) {
		for _, cl := range cls {
			cl.Expr = rn(cl.Expr)
		}
	}
	rc(ct.Requires)
	rc(ct.Assumes)
	rc(ct.Ensures)
	for _, cls := range ct.LoopInv {
		rc(cls)
	}
	for _, cls := range ct.LoopEns {
		rc(cls)
	}
	for _, cls := range ct.LoopAsm {
		rc(cls)
	}
	for _, cl := range ct.LoopDec {
		if cl != nil {
			cl.Expr = rn(cl.Expr)
		}
	}
	for k, es := range ct.LoopMod {
		for i2 := range es {
			ct.LoopMod[k][i2] = rn(es[i2])
		}
	}
	for i2 := range ct.Modifies {
		ct.Modifies[i2] = rn(ct.Modifies[i2])
	}
}

// renameIdentsShadow: like renameIdents, also for the `name#k` notation of shadowed locals
// and for names given as string literals to bound(closure, "name").
func renameIdentsShadow(e *Expr, ren map[string]string) *Expr {
	if e == nil {
		return nil
	}
	n := *e
	if e.Kind == "ident" {
		base, suffix := e.Name, ""
		if k := strings.Index(base, "#"); k > 0 {
			base, suffix = e.Name[:k], e.Name[k:]
		}
		if r, ok := ren[base]; ok {
			n.Name = r + suffix
		}
	}
	n.Args = nil
	for k, a := range e.Args {
		na := renameIdentsShadow(a, ren)
		if e.Kind == "call" && e.Name == "bound" && k == 1 && a.Kind == "str" {
			if r, ok := ren[a.Lit]; ok {
				c := *a
				c.Lit = r
				na = &c
			}
		}
		n.Args = append(n.Args, na)
	}
	return &n
}


// fieldRenames: struct fields renamed in place (same struct, same position, same type, the
// old name gone from every struct of the module): old name -> new name.
func (P *Program) fieldRenames(shapes map[string]fnShape) map[string]string {
	ren := map[string]string{}
	if shapes == nil {
		return ren
	}
	current := map[string]bool{}
	type cur struct{ fields [][2]string }
	structs := map[string]cur{}
	q := func(p *types.Package) string { return p.Name() }
	for _, pkg := range P.Pkgs {
		if !inModule(pkg.Types) {
			continue
		}
		sc := pkg.Types.Scope()
		for _, n := range sc.Names() {
			tn, ok := sc.Lookup(n).(*types.TypeName)
			if !ok {
				continue
			}
			st, ok := tn.Type().Underlying().(*types.Struct)
			if !ok {
				continue
			}
			var c cur
			for i := 0; i < st.NumFields(); i++ {
				c.fields = append(c.fields, [2]string{st.Field(i).Name(), types.TypeString(st.Field(i).Type(), q)})
				current[st.Field(i).Name()] = true
			}
			structs["struct::"+pkg.Types.Path()+"."+n] = c
		}
	}
	var keys []string
	for k := range shapes {
		if strings.HasPrefix(k, "struct::") {
			keys = append(keys, k)
		}
	}
	sort.Strings(keys)
	for _, k := range keys {
		old := shapes[k].Locals
		c, ok := structs[k]
		if !ok || len(c.fields) != len(old) {
			continue
		}
		same := true
		for i := range old {
			if old[i][1] != c.fields[i][1] {
				same = false
			}
		}
		if !same {
			continue
		}
		for i := range old {
			if old[i][0] != c.fields[i][0] {
				stillThere := false
				for _, f := range c.fields {
					if f[0] == old[i][0] {
						stillThere = true
					}
				}
				if !stillThere {
					sk := strings.TrimPrefix(k, "struct::")
					if structFieldRen[sk] == nil {
						structFieldRen[sk] = map[string]string{}
					}
					structFieldRen[sk][old[i][0]] = c.fields[i][0]
				}
			}
			if old[i][0] != c.fields[i][0] && !current[old[i][0]] {
				if prev, dup := ren[old[i][0]]; !dup || prev == c.fields[i][0] {
					ren[old[i][0]] = c.fields[i][0]
					P.Rebound = append(P.Rebound, fmt.Sprintf("field %s.%s renamed to %s in the contracts", strings.TrimPrefix(k, "struct::"), old[i][0], c.fields[i][0]))
				}
			}
		}
	}
	return ren
}

// renameFields rewrites field selections (x.old -> x.new) in every clause of a contract.
func renameFieldsInContract(ct *Contract, ren map[string]string) {
	if len(ren) == 0 {
		return
	}
	var rn func(e *Expr) *Expr
	rn = func(e *Expr) *Expr {
		if e == nil {
			return nil
		}
		n := *e
		if e.Kind == "sel" {
			if r, ok := ren[e.Name]; ok {
				n.Name = r
			}
		}
		n.Args = nil
		for _, a := range e.Args {
			n.Args = append(n.Args, rn(a))
		}
		return &n
	}
	rc := func(cls []*Clause) {
		for _, cl := range cls {
			cl.Expr = rn(cl.Expr)
		}
	}
	rc(ct.Requires)
	rc(ct.Assumes)
	rc(ct.Ensures)
	rc(ct.OnClose)
	for _, cls := range ct.LoopInv {
		rc(cls)
	}
	for _, cls := range ct.LoopEns {
		rc(cls)
	}
	for _, cls := range ct.LoopAsm {
		rc(cls)
	}
	for _, cl := range ct.LoopDec {
		if cl != nil {
			cl.Expr = rn(cl.Expr)
		}
	}
	for k, es := range ct.LoopMod {
		for i := range es {
			ct.LoopMod[k][i] = rn(es[i])
		}
	}
	for i := range ct.Modifies {
		ct.Modifies[i] = rn(ct.Modifies[i])
	}
}

// renamedFunctions: contract names that no longer exist, bound to the one new function of the
// same package with the recorded fingerprint and parameter names (a function was renamed).
func (P *Program) renamedFunctions(byRel map[string]*ssa.Function, shapes map[string]fnShape) map[string]*ssa.Function {
	out := map[string]*ssa.Function{}
	if shapes == nil {
		return out
	}
	var keys []string
	for k := range shapes {
		if !strings.HasPrefix(k, "struct::") {
			keys = append(keys, k)
		}
	}
	sort.Strings(keys)
	taken := map[*ssa.Function]bool{}
	for _, key := range keys {
		sep := strings.Index(key, "::")
		pkg, rel := key[:sep], key[sep+2:]
		if byRel[key] != nil || closureParent(rel) != "" {
			continue
		}
		old := shapes[key]
		var cands []*ssa.Function
		for _, fn := range P.ModFuncs {
			if fn.Parent() != nil || fnPkg(fn).Path() != pkg || taken[fn] {
				continue
			}
			if _, known := shapes[shapeKey(fn)]; known {
				continue // existed under this name before: not a renamed function
			}
			sh := shapeOf(fn)
			if sh.FP == old.FP && fmt.Sprint(sh.Params) == fmt.Sprint(old.Params) {
				cands = append(cands, fn)
			}
		}
		if len(cands) == 1 {
			out[key] = cands[0]
			taken[cands[0]] = true
			P.Rebound = append(P.Rebound, fmt.Sprintf("%s is now %s (function renamed): contracts and names follow", rel, cands[0].RelString(fnPkg(cands[0]))))
		}
	}
	return out
}


// typeRenames: a struct type of the snapshot that no longer exists, while exactly one new
// struct type of the same package has the very same field list: old name -> new name.
func typeRenames(pkgs []*packages.Package, shapes map[string]fnShape) map[string]string {
	out := map[string]string{}
	if shapes == nil {
		return out
	}
	q := func(p *types.Package) string { return p.Name() }
	for _, pkg := range pkgs {
		if !inModule(pkg.Types) {
			continue
		}
		sc := pkg.Types.Scope()
		cur := map[string]string{} // name -> field signature
		for _, n := range sc.Names() {
			tn, ok := sc.Lookup(n).(*types.TypeName)
			if !ok {
				continue
			}
			st, ok := tn.Type().Underlying().(*types.Struct)
			if !ok {
				continue
			}
			var fs []string
			for i := 0; i < st.NumFields(); i++ {
				fs = append(fs, st.Field(i).Name()+" "+types.TypeString(st.Field(i).Type(), q))
			}
			cur[n] = strings.Join(fs, ";")
		}
		prefix := "struct::" + pkg.Types.Path() + "."
		var keys []string
		for k := range shapes {
			if strings.HasPrefix(k, prefix) {
				keys = append(keys, k)
			}
		}
		sort.Strings(keys)
		for _, k := range keys {
			oldName := strings.TrimPrefix(k, prefix)
			if _, still := cur[oldName]; still {
				continue
			}
			var fs []string
			for _, f := range shapes[k].Locals {
				fs = append(fs, f[0]+" "+strings.ReplaceAll(f[1], oldName, "\x00"))
			}
			sig := strings.Join(fs, ";")
			var cands []string
			for n, s2 := range cur {
				if _, known := shapes[prefix+n]; known {
					continue
				}
				if strings.ReplaceAll(s2, n, "\x00") == sig && len(fs) > 0 {
					cands = append(cands, n)
				}
			}
			if len(cands) == 1 {
				out[oldName] = cands[0]
			}
		}
	}
	return out
}

// structFieldRen: per struct ("pkgpath.Name"), fields renamed in place since the snapshot
// (old name -> new name); consulted wherever a contract selects a field by name.
var structFieldRen = map[string]map[string]string{}

// localAlias: per function, current name of a renamed parameter, capture or local -> the name
// it had when the ledger was frozen (the one its contract still uses)
var localAlias = map[*ssa.Function]map[string]string{}

func aliasedLocal(fn *ssa.Function, name string) string {
	if a := localAlias[fn][name]; a != "" {
		return a
	}
	return name
}

// fieldIs: does field f of struct type t answer to `name` (its own name, or the name it had
// when the contracts were last frozen)?
func fieldIs(t types.Type, f *types.Var, name string) bool {
	if f.Name() == name {
		return true
	}
	if len(structFieldRen) == 0 {
		return false
	}
	n, ok := types.Unalias(derefType(t)).(*types.Named)
	if !ok || n.Obj().Pkg() == nil {
		return false
	}
	m := structFieldRen[n.Obj().Pkg().Path()+"."+n.Obj().Name()]
	return m != nil && m[name] == f.Name()
}
