package main

// Contract files: comment-only Go files (//go:build verif) whose "//@" lines carry
// Gobra-flavoured contracts keyed by package-relative SSA function name.

import (
	"regexp"
	"fmt"
	"os"
	"strconv"
	"strings"
	"unicode"
)

type Clause struct {
	Kind  string // requires, ensures, invariant, decreases, lemma, chaninv
	Props []string // non-empty: the clause is an obligation of these properties only (label@C11,C12)
	NotProps []string // label@!C08: not an obligation (nor an assumption) in runs of these properties
	AssumeScoped bool // label@~C08: also only assumed (at call sites) in runs of those properties
	Label string
	Expr  *Expr
	Text  string
	Loop  int
	File  string
	Line  int
}

type Contract struct {
	Kind     string // func, iface, chan, functype
	Name     string // package-relative name
	Pkg      string // package path the file belongs to
	Props    []string
	Pure     bool
	Trusted  bool // contract assumed, body not verified
	Wraps    bool // integer arithmetic wraps silently in this function (documented behaviour)
	WrapsUnsigned bool // unsigned arithmetic wraps silently (defined by the language, intended here)
	NoOvf    bool // do not generate overflow obligations
	Requires []*Clause
	Assumes  []*Clause
	OnClose  []*Clause // chan roles: what holds from the moment the channel is closed
	Ensures  []*Clause
	Modifies []*Expr // nil = inferred; non-nil (possibly empty) = declared
	HasMod   bool
	LoopInv  map[int][]*Clause
	LoopDec  map[int]*Clause
	LoopMod  map[int][]*Expr // loop frame: locations the loop body may modify (for the keys they name)
	LoopAsm  map[int][]*Clause // assumed (not proved) at the loop head, reported as an assumption
	LoopEns  map[int][]*Clause // per-iteration postconditions, checked at every back edge; iter(e) = value at the loop head
	IfaceReq map[string][]*Clause // for implementations: the preconditions of each interface contract refined ("Iface.Method" -> clauses, renamed)
	Params   []string // for iface / functype contracts: parameter names
	File     string
	Line     int
	Bound    bool
}

type TypeInv struct {
	Pkg    string
	Type   string
	Props  []string
	Clause *Clause
}

// Published: `published Bar.bs [props ..] mutable f1 f2` — the object behind the named pointer
// field is shared between goroutines once it is stored there; the listed fields may still be
// written (by the one unexported late user), all others are frozen.
type Published struct {
	Pkg, Struct, Field string
	Props              []string
	Mutable            []string
	File               string
	Line               int
}

type SpecFile struct {
	Published []*Published
	TypeInvs  []*TypeInv
	Contracts []*Contract
	Lemmas    []*Lemma
	Defs      map[string]*SpecDef
}

type Lemma struct {
	Name  string
	Props []string
	Vars  []LemmaVar
	Expr  *Expr
	Text  string
	File  string
	Line  int
}

type LemmaVar struct {
	Name string
	Sort Sort
	Go   string // go scalar type name for range assumptions ("int64", "uint", "int", "bool", "real")
}

type SpecDef struct {
	Name   string
	Params []string
	Body   *Expr
}

// inactive: the clause is neither proved nor assumed in a run of property prop.
func (cl *Clause) inactive(prop string) bool {
	if prop == "" {
		return false
	}
	if len(cl.Props) > 0 && !hasProp(cl.Props, prop) {
		return true
	}
	return hasProp(cl.NotProps, prop)
}

func hasProp(props []string, p string) bool {
	for _, q := range props {
		if q == p {
			return true
		}
	}
	return false
}

var clauseKeywords = map[string]bool{
	"props": true, "pure": true, "trusted": true, "wraps": true, "noovf": true, "requires": true, "ensures": true, "assumes": true, "onclose": true,
	"modifies": true, "loop": true, "params": true,
}

// specTypeRenames: struct types renamed since the shape snapshot (old name -> new name).
var specTypeRenames = map[string]string{}

func parseSpecFile(path, pkgPath string, sf *SpecFile) error {
	data, err := os.ReadFile(path)
	if err != nil {
		return err
	}
	text := string(data)
	for old, nw := range specTypeRenames {
		// a struct type renamed in place (shape.go): the contracts follow, textually, on //@ lines
		re := regexp.MustCompile(`\b` + regexp.QuoteMeta(old) + `\b`)
		var out []string
		for _, ln := range strings.Split(text, "\n") {
			if strings.HasPrefix(strings.TrimSpace(ln), "//@") {
				ln = re.ReplaceAllString(ln, nw)
			}
			out = append(out, ln)
		}
		text = strings.Join(out, "\n")
	}
	lines := strings.Split(text, "\n")
	var cur *Contract
	var curLemma *Lemma
	var pending *struct {
		kw, text string
		line     int
	}
	flush := func() error {
		if pending == nil {
			return nil
		}
		p := pending
		pending = nil
		if curLemma != nil && p.kw == "lemmabody" {
			e, err := parseExpr(p.text)
			if err != nil {
				return fmt.Errorf("%s:%d: %v", path, p.line, err)
			}
			curLemma.Expr = e
			curLemma.Text = p.text
			return nil
		}
		if cur == nil {
			return fmt.Errorf("%s:%d: clause outside contract", path, p.line)
		}
		return addClause(cur, p.kw, p.text, path, p.line)
	}
	for i, raw := range lines {
		ln := strings.TrimSpace(raw)
		if !strings.HasPrefix(ln, "//@") {
			continue
		}
		body := strings.TrimPrefix(ln, "//@")
		if j := strings.Index(body, " // "); j >= 0 { // trailing comment
			body = body[:j]
		}
		indented := strings.HasPrefix(body, "  ")
		body = strings.TrimSpace(body)
		if body == "" || strings.HasPrefix(body, "//") {
			continue
		}
		fields := strings.Fields(body)
		kw := fields[0]
		rest := strings.TrimSpace(strings.TrimPrefix(body, kw))
		if !indented {
			if err := flush(); err != nil {
				return err
			}
			curLemma = nil
			switch kw {
			case "func", "closure", "iface", "functype":
				kind := kw
				if kind == "closure" {
					kind = "func"
				}
				cur = &Contract{Kind: kind, Name: rest, Pkg: pkgPath, File: path, Line: i + 1,
					LoopInv: map[int][]*Clause{}, LoopDec: map[int]*Clause{}, LoopMod: map[int][]*Expr{}, LoopEns: map[int][]*Clause{}, LoopAsm: map[int][]*Clause{}}
				sf.Contracts = append(sf.Contracts, cur)
			case "chan":
				// chan <Type.field> invariant <expr over v>
				fs := strings.SplitN(rest, " ", 3)
				if len(fs) < 3 || (fs[1] != "invariant" && fs[1] != "assume" && fs[1] != "closing" && fs[1] != "onclose") {
					return fmt.Errorf("%s:%d: bad chan clause", path, i+1)
				}
				cur = &Contract{Kind: "chan", Name: fs[0], Pkg: pkgPath, File: path, Line: i + 1}
				sf.Contracts = append(sf.Contracts, cur)
				kw := "ensures"
				if fs[1] == "assume" {
					kw = "assumes"
				}
				if fs[1] == "onclose" {
					kw = "onclose" // holds when the channel is closed: proved at every close, assumed at receives from a closed channel
				}
				if fs[1] == "closing" {
					kw = "requires" // stored in Requires of the chan contract: message predicate after which the peer closes the channel
				}
				pending = &struct {
					kw, text string
					line     int
				}{kw, fs[2], i + 1}
			case "typeinv":
				// typeinv <Type> [props C02 ...] <expr over self>
				toks := strings.Fields(rest)
				if len(toks) < 2 {
					return fmt.Errorf("%s:%d: bad typeinv", path, i+1)
				}
				ti := &TypeInv{Pkg: pkgPath, Type: toks[0]}
				rem := strings.TrimSpace(strings.TrimPrefix(rest, toks[0]))
				if strings.HasPrefix(rem, "props ") {
					rem = strings.TrimPrefix(rem, "props ")
					for {
						f := strings.Fields(rem)
						if len(f) == 0 || !strings.HasPrefix(f[0], "C") || len(f[0]) > 4 {
							break
						}
						ti.Props = append(ti.Props, f[0])
						rem = strings.TrimSpace(strings.TrimPrefix(rem, f[0]))
					}
				}
				e, err := parseExpr(rem)
				if err != nil {
					return fmt.Errorf("%s:%d: %v", path, i+1, err)
				}
				ti.Clause = &Clause{Kind: "typeinv", Expr: e, Text: rem, File: path, Line: i + 1}
				sf.TypeInvs = append(sf.TypeInvs, ti)
				cur = nil
			case "spec":
				// spec name(a, b) = expr
				eq := strings.Index(rest, "=")
				lp := strings.Index(rest, "(")
				rp := strings.Index(rest, ")")
				if eq < 0 || lp < 0 || rp < 0 || rp > eq {
					return fmt.Errorf("%s:%d: bad spec definition", path, i+1)
				}
				name := strings.TrimSpace(rest[:lp])
				var params []string
				for _, p := range strings.Split(rest[lp+1:rp], ",") {
					if p = strings.TrimSpace(p); p != "" {
						params = append(params, p)
					}
				}
				e, err := parseExpr(rest[eq+1:])
				if err != nil {
					return fmt.Errorf("%s:%d: %v", path, i+1, err)
				}
				sf.Defs[name] = &SpecDef{Name: name, Params: params, Body: e}
				cur = nil
			case "published":
				// published Bar.bs [props C10] mutable shutdown ...
				cur = nil
				toks := strings.Fields(rest)
				if len(toks) < 2 || !strings.Contains(toks[0], ".") {
					return fmt.Errorf("%s:%d: bad published declaration", path, i+1)
				}
				dot := strings.Index(toks[0], ".")
				pb := &Published{Pkg: pkgPath, Struct: toks[0][:dot], Field: toks[0][dot+1:], File: path, Line: i + 1}
				mode := ""
				for _, t := range toks[1:] {
					switch {
					case t == "props" || t == "mutable":
						mode = t
					case mode == "props":
						pb.Props = append(pb.Props, t)
					case mode == "mutable":
						pb.Mutable = append(pb.Mutable, t)
					default:
						return fmt.Errorf("%s:%d: bad published declaration near %q", path, i+1, t)
					}
				}
				sf.Published = append(sf.Published, pb)
			case "lemma":
				// lemma name props C09 C11 forall x int64, y bool :: expr
				cur = nil
				l := &Lemma{File: path, Line: i + 1}
				toks := strings.Fields(rest)
				if len(toks) == 0 {
					return fmt.Errorf("%s:%d: bad lemma", path, i+1)
				}
				l.Name = toks[0]
				rem := strings.TrimSpace(strings.TrimPrefix(rest, toks[0]))
				if strings.HasPrefix(rem, "props ") {
					rem = strings.TrimPrefix(rem, "props ")
					for {
						f := strings.Fields(rem)
						if len(f) == 0 || !strings.HasPrefix(f[0], "C") || len(f[0]) > 4 {
							break
						}
						l.Props = append(l.Props, f[0])
						rem = strings.TrimSpace(strings.TrimPrefix(rem, f[0]))
					}
				}
				if strings.HasPrefix(rem, "forall ") {
					sep := strings.Index(rem, "::")
					if sep < 0 {
						return fmt.Errorf("%s:%d: lemma without ::", path, i+1)
					}
					for _, d := range strings.Split(rem[len("forall "):sep], ",") {
						fs := strings.Fields(d)
						if len(fs) != 2 {
							return fmt.Errorf("%s:%d: bad lemma variable %q", path, i+1, d)
						}
						lv := LemmaVar{Name: fs[0], Go: fs[1], Sort: SInt}
						switch fs[1] {
						case "bool":
							lv.Sort = SBool
						case "real", "float64":
							lv.Sort = SReal
						}
						l.Vars = append(l.Vars, lv)
					}
					rem = rem[sep+2:]
				}
				curLemma = l
				sf.Lemmas = append(sf.Lemmas, l)
				pending = &struct {
					kw, text string
					line     int
				}{"lemmabody", rem, i + 1}
			default:
				return fmt.Errorf("%s:%d: unknown top-level keyword %q", path, i+1, kw)
			}
			continue
		}
		if clauseKeywords[kw] {
			if err := flush(); err != nil {
				return err
			}
			pending = &struct {
				kw, text string
				line     int
			}{kw, rest, i + 1}
		} else {
			if pending == nil {
				return fmt.Errorf("%s:%d: continuation without clause", path, i+1)
			}
			pending.text += " " + body
		}
	}
	return flush()
}

func addClause(c *Contract, kw, text, file string, line int) error {
	mk := func(kind, text string) (*Clause, error) {
		label := ""
		// optional "label:" prefix (identifier followed by ':' and not ':=')
		if i := strings.Index(text, ":"); i > 0 && i < 40 {
			cand := strings.TrimSpace(text[:i])
			base := cand
			if j := strings.Index(cand, "@"); j > 0 {
				base = cand[:j]
				cand2 := strings.ReplaceAll(cand[j+1:], "~", "")
				_ = cand2
			}
			if isIdent(base) && !strings.HasPrefix(text[i:], ":=") {
				label = cand
				text = strings.TrimSpace(text[i+1:])
			}
		}
		var props, notProps []string
		scoped := false
		if j := strings.Index(label, "@"); j > 0 {
			tags := label[j+1:]
			if strings.HasPrefix(tags, "~") {
				scoped = true
				tags = tags[1:]
			}
			if strings.HasPrefix(tags, "!") {
				// label@!C08: everywhere except in runs of the listed properties (cost scoping)
				notProps = strings.Split(tags[1:], ",")
			} else {
				props = strings.Split(tags, ",")
			}
			label = label[:j]
		}
		e, err := parseExpr(text)
		if err != nil {
			return nil, fmt.Errorf("%s:%d: %v", file, line, err)
		}
		return &Clause{Kind: kind, Label: label, Props: props, NotProps: notProps, AssumeScoped: scoped, Expr: e, Text: text, File: file, Line: line}, nil
	}
	switch kw {
	case "props":
		c.Props = append(c.Props, strings.Fields(text)...)
	case "pure":
		c.Pure = true
		c.HasMod = true
	case "trusted":
		c.Trusted = true
	case "wraps":
		switch strings.TrimSpace(text) {
		case "uint", "unsigned":
			c.WrapsUnsigned = true
		default:
			c.Wraps = true
		}
	case "noovf":
		c.NoOvf = true
	case "params":
		c.Params = strings.Fields(strings.ReplaceAll(text, ",", " "))
	case "requires":
		cl, err := mk("requires", text)
		if err != nil {
			return err
		}
		c.Requires = append(c.Requires, cl)
	case "assumes":
		// assumed at entry, not checked at call sites: an explicit, reported assumption
		cl, err := mk("assumes", text)
		if err != nil {
			return err
		}
		c.Assumes = append(c.Assumes, cl)
	case "onclose":
		cl, err := mk("onclose", text)
		if err != nil {
			return err
		}
		c.OnClose = append(c.OnClose, cl)
	case "ensures":
		cl, err := mk("ensures", text)
		if err != nil {
			return err
		}
		c.Ensures = append(c.Ensures, cl)
	case "modifies":
		c.HasMod = true
		if strings.TrimSpace(text) == "" || strings.TrimSpace(text) == "nothing" {
			return nil
		}
		for _, part := range splitTop(text, ',') {
			e, err := parseExpr(part)
			if err != nil {
				return fmt.Errorf("%s:%d: %v", file, line, err)
			}
			c.Modifies = append(c.Modifies, e)
		}
	case "loop":
		ff := strings.Fields(text)
		if len(ff) < 3 {
			return fmt.Errorf("%s:%d: bad loop clause", file, line)
		}
		rest := strings.TrimSpace(strings.TrimPrefix(strings.TrimSpace(strings.TrimPrefix(strings.TrimSpace(text), ff[0])), ff[1]))
		fs := []string{ff[0], ff[1], rest}
		n, err := strconv.Atoi(fs[0])
		if err != nil {
			return fmt.Errorf("%s:%d: bad loop ordinal", file, line)
		}
		switch fs[1] {
		case "invariant":
			cl, err := mk("invariant", fs[2])
			if err != nil {
				return err
			}
			cl.Loop = n
			c.LoopInv[n] = append(c.LoopInv[n], cl)
		case "ensures":
			cl, err := mk("loopens", fs[2])
			if err != nil {
				return err
			}
			cl.Loop = n
			c.LoopEns[n] = append(c.LoopEns[n], cl)
		case "assumes":
			cl, err := mk("loopassume", fs[2])
			if err != nil {
				return err
			}
			cl.Loop = n
			if c.LoopAsm == nil {
				c.LoopAsm = map[int][]*Clause{}
			}
			c.LoopAsm[n] = append(c.LoopAsm[n], cl)
		case "decreases":
			cl, err := mk("decreases", fs[2])
			if err != nil {
				return err
			}
			cl.Loop = n
			c.LoopDec[n] = cl
		case "modifies":
			for _, part := range splitTop(fs[2], ',') {
				e, err := parseExpr(part)
				if err != nil {
					return fmt.Errorf("%s:%d: %v", file, line, err)
				}
				c.LoopMod[n] = append(c.LoopMod[n], e)
			}
		default:
			return fmt.Errorf("%s:%d: bad loop clause kind %q", file, line, fs[1])
		}
	}
	return nil
}

func isIdent(s string) bool {
	if s == "" {
		return false
	}
	for i, r := range s {
		if !(unicode.IsLetter(r) || r == '_' || r == '-' || (i > 0 && unicode.IsDigit(r))) {
			return false
		}
	}
	return true
}

func splitTop(s string, sep rune) []string {
	var out []string
	depth := 0
	last := 0
	for i, r := range s {
		switch r {
		case '(', '[':
			depth++
		case ')', ']':
			depth--
		default:
			if r == sep && depth == 0 {
				out = append(out, s[last:i])
				last = i + 1
			}
		}
	}
	out = append(out, s[last:])
	return out
}

// ---------------------------------------------------------------------------
// expressions

type Expr struct {
	Kind string // ident int real str bool unary binary call sel index
	Name string // identifier, operator, field, function name
	Lit  string
	Args []*Expr
}

func (e *Expr) String() string {
	switch e.Kind {
	case "ident":
		return e.Name
	case "int", "real", "bool":
		return e.Lit
	case "str":
		return strconv.Quote(e.Lit)
	case "unary":
		return e.Name + e.Args[0].String()
	case "binary":
		return "(" + e.Args[0].String() + " " + e.Name + " " + e.Args[1].String() + ")"
	case "call":
		var as []string
		for _, a := range e.Args {
			as = append(as, a.String())
		}
		return e.Name + "(" + strings.Join(as, ", ") + ")"
	case "sel":
		return e.Args[0].String() + "." + e.Name
	case "mcall":
		var as []string
		for _, a := range e.Args[1:] {
			as = append(as, a.String())
		}
		return e.Args[0].String() + "." + e.Name + "(" + strings.Join(as, ", ") + ")"
	case "index":
		return e.Args[0].String() + "[" + e.Args[1].String() + "]"
	}
	return "?"
}

type tok struct {
	kind string // ident int real str op eof
	text string
}

func lex(s string) ([]tok, error) {
	var toks []tok
	rs := []rune(s)
	i := 0
	for i < len(rs) {
		r := rs[i]
		switch {
		case unicode.IsSpace(r):
			i++
		case unicode.IsLetter(r) || r == '_' || r == '#':
			j := i + 1
			for j < len(rs) && (unicode.IsLetter(rs[j]) || unicode.IsDigit(rs[j]) || rs[j] == '_' || rs[j] == '$' || (rs[j] == '#' && j+1 < len(rs) && unicode.IsDigit(rs[j+1]))) {
				j++
			}
			toks = append(toks, tok{"ident", string(rs[i:j])})
			i = j
		case unicode.IsDigit(r):
			j := i + 1
			isReal := false
			for j < len(rs) && (unicode.IsDigit(rs[j]) || rs[j] == '.' || rs[j] == '_') {
				if rs[j] == '.' {
					if j+1 < len(rs) && !unicode.IsDigit(rs[j+1]) {
						break
					}
					isReal = true
				}
				j++
			}
			k := "int"
			if isReal {
				k = "real"
			}
			toks = append(toks, tok{k, strings.ReplaceAll(string(rs[i:j]), "_", "")})
			i = j
		case r == '"':
			j := i + 1
			for j < len(rs) && rs[j] != '"' {
				if rs[j] == '\\' {
					j++
				}
				j++
			}
			if j >= len(rs) {
				return nil, fmt.Errorf("unterminated string")
			}
			u, err := strconv.Unquote(string(rs[i : j+1]))
			if err != nil {
				return nil, err
			}
			toks = append(toks, tok{"str", u})
			i = j + 1
		default:
			three := ""
			if i+2 < len(rs) {
				three = string(rs[i : i+3])
			}
			two := ""
			if i+1 < len(rs) {
				two = string(rs[i : i+2])
			}
			switch {
			case three == "==>" || three == "<==":
				toks = append(toks, tok{"op", three})
				i += 3
			case two == "==" || two == "!=" || two == "<=" || two == ">=" || two == "&&" || two == "||" || two == "<<" || two == ">>":
				toks = append(toks, tok{"op", two})
				i += 2
			case strings.ContainsRune("+-*/%<>!()[],.?:&|", r):
				toks = append(toks, tok{"op", string(r)})
				i++
			default:
				return nil, fmt.Errorf("unexpected character %q", r)
			}
		}
	}
	toks = append(toks, tok{"eof", ""})
	return toks, nil
}

type parser struct {
	toks []tok
	pos  int
}

func parseExpr(s string) (*Expr, error) {
	toks, err := lex(s)
	if err != nil {
		return nil, fmt.Errorf("%v in %q", err, s)
	}
	p := &parser{toks: toks}
	e, err := p.parseBin(0)
	if err != nil {
		return nil, fmt.Errorf("%v in %q", err, s)
	}
	if p.peek().kind != "eof" {
		return nil, fmt.Errorf("trailing %q in %q", p.peek().text, s)
	}
	return e, nil
}

func (p *parser) peek() tok { return p.toks[p.pos] }
func (p *parser) next() tok { t := p.toks[p.pos]; p.pos++; return t }

var binPrec = map[string]int{
	"==>": 1, "||": 2, "&&": 3,
	"==": 4, "!=": 4, "<": 4, "<=": 4, ">": 4, ">=": 4,
	"+": 5, "-": 5, "|": 5,
	"*": 6, "/": 6, "%": 6, "<<": 6, ">>": 6, "&": 6,
}

func (p *parser) parseBin(minPrec int) (*Expr, error) {
	lhs, err := p.parseUnary()
	if err != nil {
		return nil, err
	}
	for {
		t := p.peek()
		prec, ok := binPrec[t.text]
		if t.kind != "op" || !ok || prec < minPrec {
			return lhs, nil
		}
		p.next()
		nextMin := prec + 1
		if t.text == "==>" {
			nextMin = prec // right associative
		}
		rhs, err := p.parseBin(nextMin)
		if err != nil {
			return nil, err
		}
		lhs = &Expr{Kind: "binary", Name: t.text, Args: []*Expr{lhs, rhs}}
	}
}

func (p *parser) parseUnary() (*Expr, error) {
	t := p.peek()
	if t.kind == "op" && (t.text == "!" || t.text == "-") {
		p.next()
		x, err := p.parseUnary()
		if err != nil {
			return nil, err
		}
		return &Expr{Kind: "unary", Name: t.text, Args: []*Expr{x}}, nil
	}
	return p.parsePostfix()
}

func (p *parser) parsePostfix() (*Expr, error) {
	t := p.next()
	var e *Expr
	switch t.kind {
	case "int":
		e = &Expr{Kind: "int", Lit: t.text}
	case "real":
		e = &Expr{Kind: "real", Lit: t.text}
	case "str":
		e = &Expr{Kind: "str", Lit: t.text}
	case "ident":
		switch t.text {
		case "true", "false":
			e = &Expr{Kind: "bool", Lit: t.text}
		default:
			e = &Expr{Kind: "ident", Name: t.text}
		}
	case "op":
		if t.text == "(" {
			x, err := p.parseBin(0)
			if err != nil {
				return nil, err
			}
			if p.next().text != ")" {
				return nil, fmt.Errorf("expected )")
			}
			e = x
		} else {
			return nil, fmt.Errorf("unexpected %q", t.text)
		}
	default:
		return nil, fmt.Errorf("unexpected end of expression")
	}
	for {
		t := p.peek()
		if t.kind != "op" {
			return e, nil
		}
		switch t.text {
		case ".":
			p.next()
			f := p.next()
			if f.kind != "ident" && f.kind != "int" {
				return nil, fmt.Errorf("expected field after .")
			}
			e = &Expr{Kind: "sel", Name: f.text, Args: []*Expr{e}}
		case "[":
			p.next()
			idx, err := p.parseBin(0)
			if err != nil {
				return nil, err
			}
			if p.next().text != "]" {
				return nil, fmt.Errorf("expected ]")
			}
			e = &Expr{Kind: "index", Args: []*Expr{e, idx}}
		case "(":
			if e.Kind != "ident" && e.Kind != "sel" {
				return e, nil
			}
			p.next()
			var args []*Expr
			if p.peek().text != ")" {
				for {
					a, err := p.parseBin(0)
					if err != nil {
						return nil, err
					}
					args = append(args, a)
					if p.peek().text == "," {
						p.next()
						continue
					}
					break
				}
			}
			if p.next().text != ")" {
				return nil, fmt.Errorf("expected ) after arguments")
			}
			if e.Kind == "sel" {
				e = &Expr{Kind: "mcall", Name: e.Name, Args: append([]*Expr{e.Args[0]}, args...)}
			} else {
				e = &Expr{Kind: "call", Name: e.Name, Args: args}
			}
		default:
			return e, nil
		}
	}
}
