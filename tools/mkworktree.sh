#!/bin/bash
# usage: mkworktree.sh <name>  -- scratch worktree of /repo under /tmp/wt/<name>, contract files hidden
set -e
n=$1
git -C /repo worktree add --detach /tmp/wt/$n HEAD >/dev/null 2>&1
cd /tmp/wt/$n
for f in $(git ls-files '*contracts_verif.go'); do git update-index --skip-worktree $f; rm -f $f; done
mkdir -p /tmp/seed/$n
echo /tmp/wt/$n
