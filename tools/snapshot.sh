#!/bin/bash
# usage: snapshot.sh <dir> -- frozen copy of the tree under test, the ledgers and the engine binary,
# so that tools/seedall.sh / benignall.sh (env SNAP=<dir>) can run while /repo and /verif are edited
d=$1; rm -rf $d; mkdir -p $d/verif
cp -r /repo $d/repo && rm -rf $d/repo/.git
cp -r /verif/ledger /verif/KNOWN_FINDINGS.txt /verif/properties.jsonl $d/verif/
cp /verif/bin/gowp $d/gowp
echo $d
