#!/bin/bash
# usage: seedimport3.sh <group, e.g. G3> -- round-5 results: id = r5<group><A|B>, property from meta.json
n=$1; ids=""
for v in A B; do
  [ -f /tmp/seed/$n/$v/patch.diff ] || continue
  p=$(python3 -c "import json;print(json.load(open('/tmp/seed/$n/$v/meta.json'))['property'])")
  d=/verif/seeded/$p-r5$n$v; mkdir -p $d
  cp /tmp/seed/$n/$v/patch.diff /tmp/seed/$n/$v/meta.json $d/
  cp /tmp/seed/$n/$v/zz_seed_demo_test.go $d/demo_test.go.txt 2>/dev/null
  ids="$ids $p-r5$n$v"
done
/verif/tools/seedall.sh $ids
