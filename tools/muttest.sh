#!/bin/bash
# usage: muttest.sh <prop> <sed-expr> <file>   -- applies a mutation to a scratch copy and runs the check
prop=$1; expr=$2; file=$3
d=$(mktemp -d /tmp/mut.XXXX)
cp -r /repo/. $d/ && rm -rf $d/.git
sed -i "$expr" $d/$file
if diff -q /repo/$file $d/$file >/dev/null; then echo "MUTATION DID NOT APPLY"; fi
(cd $d && GOFLAGS=-mod=mod GOPROXY=off GOSUMDB=off GOTOOLCHAIN=local go build ./... 2>&1 | head -3)
/verif/bin/gowp check --prop $prop --repo $d --verif $d/.verif -v 2>&1 | grep -E "FAIL|gowp:|VIOL.*bind|spec" | cut -c1-200
rm -rf $d
