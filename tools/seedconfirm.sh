#!/bin/bash
# usage: seedconfirm.sh <dir with patch.diff, meta.json, zz_seed_demo_test.go|demo_test.go.txt> [nosuite]
# Independent confirmation of a seeded change in a scratch copy of /repo (never /repo itself):
#   1. the demonstration passes on the unchanged tree, 2. the patch applies and builds,
#   3. the demonstration fails on the changed tree, 4. the existing test suite passes on the changed tree.
# Prints one line: <dir> clean=PASS|FAIL patched=FAIL|PASS suite=PASS|FAIL|SKIP ; writes "confirmed" into meta.json.
export GOFLAGS=-mod=mod GOPROXY=off GOSUMDB=off GOTOOLCHAIN=local
s=$(cd $1 && pwd); nosuite=$2
demo=$s/zz_seed_demo_test.go; [ -f $demo ] || demo=$s/demo_test.go.txt
pkg=$(python3 -c "import json;print(json.load(open('$s/meta.json')).get('demo_pkg_dir','.') or '.')")
d=$(mktemp -d /tmp/seedconf.XXXX)
cp -r /repo/. $d/ && rm -rf $d/.git
cp $demo $d/$pkg/zz_seed_demo_test.go
run() { (cd $d && go test -vet=off -count=1 -timeout 300s -run 'TestSeedDemo' ./$pkg >$d/.out 2>&1) && echo PASS || echo FAIL; }
clean=$(run)
(cd $d && git init -q . 2>/dev/null; git -C $d apply --whitespace=nowarn $s/patch.diff) || { echo "$s NOAPPLY"; rm -rf $d; exit 2; }
(cd $d && go build ./... 2>&1 | head -3)
patched=$(run); tail -15 $d/.out > $s/.demo_out_patched 2>/dev/null
suite=SKIP
if [ -z "$nosuite" ]; then
  rm -f $d/$pkg/zz_seed_demo_test.go
  (cd $d && go test -vet=off -count=1 -timeout 20m ./... >$d/.suite 2>&1) && suite=PASS || { (cd $d && go test -vet=off -count=1 -timeout 20m ./... >$d/.suite 2>&1) && suite=PASS-ON-RERUN || suite=FAIL; }
fi
echo "$s clean=$clean patched=$patched suite=$suite"
python3 - "$s" "$clean" "$patched" "$suite" <<'P'
import json, sys, datetime
s, c, p, u = sys.argv[1:5]
m = json.load(open(s + '/meta.json'))
m['confirmed'] = {'demo_on_clean_tree': c, 'demo_on_changed_tree': p, 'suite_on_changed_tree': u,
                  'how': 'tools/seedconfirm.sh: scratch copy of /repo, go test -run TestSeedDemo before and after git apply, then go test ./... on the changed copy',
                  'date': datetime.date.today().isoformat()}
json.dump(m, open(s + '/meta.json', 'w'), indent=1)
P
rm -f $s/.demo_out_patched
rm -rf $d
