#!/bin/bash
# usage: seedimport.sh <tmp name, e.g. C09r2> -- copies /tmp/seed/<name>/{A,B} to /verif/seeded/<Cxx>-<round><A|B> and runs them
n=$1; p=${n:0:3}; r=${n:3}
ids=""
for v in A B; do
  [ -f /tmp/seed/$n/$v/patch.diff ] || continue
  d=/verif/seeded/$p-$r$v; mkdir -p $d
  cp /tmp/seed/$n/$v/patch.diff /tmp/seed/$n/$v/meta.json $d/
  cp /tmp/seed/$n/$v/zz_seed_demo_test.go $d/demo_test.go.txt 2>/dev/null
  ids="$ids $p-$r$v"
done
/verif/tools/seedall.sh $ids
