#!/bin/bash
# usage: seedall.sh [id ...] -- runs every seeded change under /verif/seeded against the quick check of
# its own property (meta.json "property") and any extra properties listed in meta.json "also";
# writes /verif/seeded/RESULTS.tsv (id, property, verdict, first failed obligations)
cd /verif/seeded
ids=${@:-$(ls -d */ | tr -d /)}
out=/verif/seeded/RESULTS.tsv
tmp=$(mktemp)
for id in $ids; do
  [ -f $id/patch.diff ] || continue
  props=$(python3 -c "import json;m=json.load(open('$id/meta.json'));print(' '.join([m['property']]+m.get('also',[])))")
  for p in $props; do
    res=$(/verif/tools/seedtest.sh /verif/seeded/$id/patch.diff $p 2>&1 | grep -v WARNING)
    n=$(echo "$res" | grep -c '^VIOLATION')
    obs=$(echo "$res" | grep '^VIOLATION' | sed 's/.*replays\/C[0-9]*\///; s/\.txt.*//' | head -4 | tr '\n' ' ')
    if echo "$res" | grep -q 'PATCH DID NOT APPLY'; then v=NOAPPLY; elif [ $n -gt 0 ]; then v=CAUGHT; else v=MISSED; fi
    echo -e "$id\t$p\t$v\t$obs" | tee -a $tmp
  done
done
if [ $# -eq 0 ]; then mv $tmp $out; else rm -f $tmp; fi
