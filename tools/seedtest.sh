#!/bin/bash
# usage: seedtest.sh <patch.diff> <prop> [<prop> ...]
# Applies a seeded change to a scratch copy of /repo (never to /repo itself) and runs the quick
# checks of the given properties against it, with the committed ledgers and known findings.
patch=$1; shift
d=$(mktemp -d /tmp/seedrun.XXXX)
cp -r /repo/. $d/ && rm -rf $d/.git
(cd $d && git init -q . 2>/dev/null; git -C $d apply --whitespace=nowarn $patch) || { echo "PATCH DID NOT APPLY"; rm -rf $d; exit 2; }
(cd $d && GOFLAGS=-mod=mod GOPROXY=off GOSUMDB=off GOTOOLCHAIN=local go build ./... 2>&1 | head -3)
mkdir -p $d/.verif && cp -r /verif/ledger /verif/KNOWN_FINDINGS.txt /verif/properties.jsonl $d/.verif/
for prop in "$@"; do
  /verif/bin/gowp check --prop $prop --repo $d --verif $d/.verif 2>&1 | grep -E "^VIOLATION|^KNOWN|gowp:" | cut -c1-260
done
rm -rf $d
