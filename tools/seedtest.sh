#!/bin/bash
# usage: seedtest.sh <patch.diff> <prop> [<prop> ...]
# Applies a seeded change to a scratch copy of /repo (never to /repo itself) and runs the quick
# checks of the given properties against it, with the committed ledgers and known findings.
# env SNAP=<dir> runs against a frozen snapshot made by tools/snapshot.sh (<dir>/repo, <dir>/verif,
# <dir>/gowp) instead of the live /repo, /verif and /verif/bin/gowp.
patch=$1; shift
R=${SNAP:+$SNAP/repo}; R=${R:-/repo}
V=${SNAP:+$SNAP/verif}; V=${V:-/verif}
G=${SNAP:+$SNAP/gowp}; G=${G:-/verif/bin/gowp}
d=$(mktemp -d /tmp/seedrun.XXXX)
cp -r $R/. $d/ && rm -rf $d/.git
(cd $d && git init -q . 2>/dev/null; git -C $d apply --whitespace=nowarn $patch) || { echo "PATCH DID NOT APPLY"; rm -rf $d; exit 2; }
(cd $d && GOFLAGS=-mod=mod GOPROXY=off GOSUMDB=off GOTOOLCHAIN=local go build ./... 2>&1 | head -3)
mkdir -p $d/.verif && cp -r $V/ledger $V/KNOWN_FINDINGS.txt $V/properties.jsonl $d/.verif/
for prop in "$@"; do
  $G check --prop $prop --repo $d --verif $d/.verif 2>&1 | grep -E "^VIOLATION|^KNOWN|gowp:" | cut -c1-260
done
rm -rf $d
