#!/usr/bin/env python3
"""Prompt for round-5 seeding agents: assigned source files and, inside them, the functions no earlier round has touched.
usage: SEED_FUNCS="f, g, .." seedprompt5.py <name> <file> [<file> ...]"""
import json, sys
name = sys.argv[1]; files = sys.argv[2:]
import os
focus = os.environ.get("SEED_FOCUS", "")
funcs = os.environ.get("SEED_FUNCS", "")
props = []
for l in open('/verif/properties.jsonl'):
    d = json.loads(l)
    if d['id'] in ('C01', 'C16'):
        continue
    props.append(f"{d['id']}: \"{d['title']}\"\n{d['statement']}\n")
print(f"""You are helping evaluate a verification tool. Your job: craft realistic code changes ("seeded bugs") to a Go library that BREAK a stated semantic property while the code still compiles and the existing test suite still passes.

The library is vbauerster/mpb (multi progress bars for terminals). You have your own scratch git worktree at /tmp/wt/{name} (work ONLY there; do not touch /repo or /verif, and do not read anything under /verif). The sandbox is offline: prefix every shell command that uses go with
  export GOFLAGS=-mod=mod GOPROXY=off GOSUMDB=off GOTOOLCHAIN=local
(environment does not persist between commands).

Your changes must be made in these source files (and only these): {', '.join(files)}
and inside them, in these functions or methods (closures inside them count): {funcs}
If after a serious attempt none of the listed functions admits a change meeting all requirements, you may use another function of the same files, and say so.

The properties the library is supposed to satisfy:

{chr(10).join(props)}
What to produce: TWO different changes (call them A and B), in different functions, each of which
 1. is small and realistic - the kind of slip a maintainer could make in a refactor or "optimisation" (an off-by-one, a dropped guard, a swapped operand, a wrong branch, a reordered statement, a stale variable, a wrong constant, a missing case) - not sabotage like deleting a whole function or adding `if x == 12345`;
 2. still compiles (`go build ./...`) and the whole existing test suite still passes: run `go test -vet=off -count=1 -timeout 20m ./...` in the worktree (a few tests are timing-based; re-run once if a failure looks unrelated, and make sure the same tests pass on the unchanged tree);
 3. genuinely violates at least ONE of the properties above on the real code (pick the one it violates most directly and name it), but only manifests under some specific input, configuration, schedule or history (not on every run of everything);
 4. comes with a demonstration: a Go test file (in the matching directory/package of the worktree) named zz_seed_demo_test.go with a test `TestSeedDemo` that FAILS on the changed code and PASSES on the unchanged code, showing the violation concretely (the input/configuration, what was observed, what the property demands). Run it both ways to confirm (save the diff to a file and use `git apply -R` / `git apply`; do NOT use `git stash`, `git commit`, `git branch` or any command that writes to the shared repository - other people use the same .git). Keep it deterministic if at all possible; if it needs a schedule, loop until it shows and say how often it shows.

{focus}
Prefer the less obvious functions of your files - helpers, option constructors, rarely used branches - over the one or two central ones. Only edit non-test .go files for the change itself (do not edit existing tests, go.mod, or any *_verif.go file). Change A and change B must be independent: develop A, save it, `git checkout -- .` (and remove the demo file), then develop B.

Save the results (create directories as needed):
  /tmp/seed/{name}/A/patch.diff      - `git diff` of the library change only (NOT including the demo test), applicable with `git apply` at the worktree root
  /tmp/seed/{name}/A/zz_seed_demo_test.go - the demonstration test
  /tmp/seed/{name}/A/meta.json       - {{"property": "<id of the property violated most directly, e.g. C07>", "also": ["<other property ids it violates, if any>"], "summary": "...one line...", "files": [...], "functions": [...], "needs": "what specific input/config/schedule makes it manifest", "demo_pkg_dir": "directory (relative to repo root) where the demo test file goes", "demo_cmd": "go test -vet=off -count=1 -run TestSeedDemo ./<dir>", "demo_fails_on_patched": true, "demo_passes_on_clean": true, "suite_passes_on_patched": true}}
and the same under /tmp/seed/{name}/B/. Leave the worktree clean (`git checkout -- . && git clean -fd`) when done.

In your final answer, for each of A and B give: the property id, the one-line summary, the function changed, what makes it manifest, and confirm the three booleans with how you checked. If you could not find a second change that passes the test suite, say so rather than weakening the requirements.""")
