#!/bin/bash
# usage: benignall.sh <group> <prop> [<prop> ...] -- imports /tmp/seed/<group>/{A,B,C,D} into /verif/benign/<group><X>
# and runs the given quick checks against each (behaviour-preserving edits: any VIOLATION is a false alarm)
g=$1; shift
for v in A B C D; do
  [ -f /tmp/seed/$g/$v/patch.diff ] || continue
  d=/verif/benign/$g$v; mkdir -p $d
  cp /tmp/seed/$g/$v/patch.diff /tmp/seed/$g/$v/meta.json $d/
  res=$(/verif/tools/seedtest.sh $d/patch.diff "$@" 2>&1 | grep -v WARNING)
  n=$(echo "$res" | grep -c '^VIOLATION')
  obs=$(echo "$res" | grep '^VIOLATION' | sed 's/VIOLATION property=\(C[0-9]*\) replay=.*replays\/C[0-9]*\//\1:/; s/\.txt.*//' | head -6 | tr '\n' ' ')
  if echo "$res" | grep -q 'PATCH DID NOT APPLY'; then vv=NOAPPLY; elif [ $n -gt 0 ]; then vv=ALARM; else vv=QUIET; fi
  echo -e "$g$v\t$vv\t$(python3 -c "import json;print(json.load(open('$d/meta.json')).get('kind','')[:60])")\t$obs" | tee -a /verif/benign/RESULTS.tsv
done
