#!/usr/bin/env python3
"""Lists the module's functions without a contract and those whose contract has no postcondition
(reads /verif/ledger/shape.json and the four contract files)."""
import re, json
shape = json.load(open('/verif/ledger/shape.json'))
pk = {'/repo/contracts_verif.go': 'github.com/vbauerster/mpb/v8', '/repo/decor/contracts_verif.go': 'github.com/vbauerster/mpb/v8/decor',
      '/repo/cwriter/contracts_verif.go': 'github.com/vbauerster/mpb/v8/cwriter', '/repo/internal/contracts_verif.go': 'github.com/vbauerster/mpb/v8/internal'}
ens = {}
for f in pk:
    cur = None
    for l in open(f):
        m = re.match(r'//@ (func|closure) (\S+)', l)
        if m:
            cur = pk[f] + '::' + m.group(2); ens.setdefault(cur, 0); continue
        if re.match(r'//@ (iface|functype|chan|typeinv|spec|lemma|published)', l):
            cur = None
        if cur and re.match(r'//@\s+(ensures|loop \d+\s+ensures)', l):
            ens[cur] += 1
none = sorted(k.split("::")[1] for k in shape if k not in ens and not k.startswith("struct::"))
thin = sorted(k.split('::')[1] for k, v in ens.items() if v == 0)
print(len(shape), 'functions;', len(ens), 'with a contract;', len(none), 'without;', len(thin), 'with a contract but no postcondition')
print('NO CONTRACT:', ', '.join(none))
print('NO POSTCONDITION:', ', '.join(thin))
