#!/bin/bash
# usage: [SNAP=dir] seedall_par.sh [jobs] -- seedall.sh over every seeded change, <jobs> at a time; writes seeded/RESULTS.tsv
j=${1:-4}
cd /verif/seeded
ls -d */ | tr -d / | xargs -P $j -I{} /verif/tools/seedall.sh {} 2>/dev/null | grep -v WARNING | sort > /tmp/seedall_par.$$
mv /tmp/seedall_par.$$ /verif/seeded/RESULTS.tsv
grep -c CAUGHT /verif/seeded/RESULTS.tsv; grep -v CAUGHT /verif/seeded/RESULTS.tsv
