#!/usr/bin/env python3
"""Prints the prompt given to a fresh sub-agent that seeds property-breaking changes.
usage: seedprompt.py <property-id> [variant-hint]"""
import json, sys
pid = sys.argv[1]
hint = sys.argv[2] if len(sys.argv) > 2 else ""
out = sys.argv[3] if len(sys.argv) > 3 else pid
for l in open('/verif/properties.jsonl'):
    d = json.loads(l)
    if d['id'] == pid:
        break
print(f"""You are helping evaluate a verification tool. Your job: craft realistic code changes ("seeded bugs") to a Go library that BREAK one stated semantic property while the code still compiles and the existing test suite still passes.

The library is vbauerster/mpb (multi progress bars for terminals). You have your own scratch git worktree at /tmp/wt/{out} (work ONLY there; do not touch /repo or /verif, and do not read anything under /verif). The sandbox is offline: prefix every shell command that uses go with
  export GOFLAGS=-mod=mod GOPROXY=off GOSUMDB=off GOTOOLCHAIN=local
(environment does not persist between commands).

The property ({pid}): "{d['title']}"
{d['statement']}

What to produce: TWO different changes (call them A and B), in different functions if you can, each of which
 1. is small and realistic - the kind of slip a maintainer could make in a refactor or "optimisation" (an off-by-one, a dropped guard, a swapped operand, a wrong branch, a reordered statement, a missing re-push, a stale variable) - not sabotage like deleting a whole function or adding `if x == 12345`;
 2. still compiles (`go build ./... && go vet ./...` is not required, `go build ./...` is) and the whole existing test suite still passes: run `go test -vet=off -count=1 -timeout 20m ./...` in the worktree (a few tests are timing-based; re-run once if a failure looks unrelated, and make sure the same tests pass on the unchanged tree);
 3. genuinely violates the property above on the real code, but only manifests under some specific input, configuration, schedule or history (not on every run of everything);
 4. comes with a demonstration: a Go test file (package mpb or mpb_test or the relevant sub-package, in the matching directory of the worktree) named zz_seed_demo_test.go with a test `TestSeedDemo` that FAILS on the changed code and PASSES on the unchanged code, showing the violation concretely (the input/configuration, what was observed, what the property demands). Run it both ways to confirm (save the diff to a file and use `git apply -R` / `git apply`; do NOT use `git stash`, `git commit`, `git branch` or any command that writes to the shared repository - other people use the same .git). Keep it deterministic if at all possible; if it needs a schedule, loop until it shows and say how often it shows.
{hint}
Only edit non-test .go files of the library for the change itself (do not edit existing tests, go.mod, or any *_verif.go file). Change A and change B must be independent: develop A, save it, `git checkout -- .` (and remove the demo file), then develop B.

Save the results (create directories as needed):
  /tmp/seed/{out}/A/patch.diff      - `git diff` of the library change only (NOT including the demo test), applicable with `git apply` at the worktree root
  /tmp/seed/{out}/A/zz_seed_demo_test.go - the demonstration test
  /tmp/seed/{out}/A/meta.json       - {{"property": "{pid}", "summary": "...one line...", "files": [...], "functions": [...], "needs": "what specific input/config/schedule makes it manifest", "demo_pkg_dir": "directory (relative to repo root) where the demo test file goes", "demo_cmd": "go test -vet=off -count=1 -run TestSeedDemo ./<dir>", "demo_fails_on_patched": true, "demo_passes_on_clean": true, "suite_passes_on_patched": true}}
and the same under /tmp/seed/{out}/B/. Leave the worktree clean (`git checkout -- . && git clean -fd`) when done.

In your final answer, for each of A and B give: the one-line summary, the function changed, what makes it manifest, and confirm the three booleans with how you checked. If you could not find a second change that passes the test suite, say so rather than weakening the requirements.""")
