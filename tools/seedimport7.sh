#!/bin/bash
# usage: seedimport7.sh <round tag, e.g. r7> <group, e.g. R7a> -- imports /tmp/seed/<group>/{A,B} as <prop>-<tag><group letter><A|B>,
# confirms each independently (tools/seedconfirm.sh) and runs the quick checks of its properties against it
tag=$1; n=$2; ids=""
for v in A B; do
  [ -f /tmp/seed/$n/$v/patch.diff ] || continue
  p=$(python3 -c "import json;print(json.load(open('/tmp/seed/$n/$v/meta.json'))['property'])")
  id=$p-$tag${n:2}$v; d=/verif/seeded/$id; mkdir -p $d
  cp /tmp/seed/$n/$v/patch.diff /tmp/seed/$n/$v/meta.json $d/
  cp /tmp/seed/$n/$v/zz_seed_demo_test.go $d/demo_test.go.txt 2>/dev/null
  /verif/tools/seedconfirm.sh $d 2>&1 | grep -v WARNING
  ids="$ids $id"
done
/verif/tools/seedall.sh $ids
