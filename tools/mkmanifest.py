#!/usr/bin/env python3
"""Regenerates /verif/MANIFEST.json from the table below (kept in one place so the
manifest stays valid and in step with what the engine actually checks)."""
import json, os

GO = "GOFLAGS=-mod=vendor GOPROXY=off GOSUMDB=off GOTOOLCHAIN=local"
TECH = "contract-based deductive verification: WP-style VCs generated from naive-form go/ssa of /repo against //@ contracts, discharged by z3 5.1 / cvc5 / z3 4.8"

CLAIMED = {
 "C07": dict(
   text="Row width: bState.draw is verified to return a row whose display width is at most the width it was given, from (i) the interface contract of decorators (reported width = display width; an obligation for every built-in Decor/Format, assumed for user decorators), (ii) the filler interface contract (emitted width <= available; proved for the bar, spinner and nop fillers) and (iii) the truncation branch. The bar body is proved to occupy exactly the allotted width (bFiller.Fill, sFiller.Fill, both flush closures, the three spinner position closures), every loop of the fillers has a proved variant (termination), struct invariants (non-empty tip frames, width = display width of the bytes, non-nil meta functions) are established by the builders and written only during construction.",
   note="display width is an additive abstract measure dw (assumed contracts of runewidth.StringWidth/Truncate/FillLeft/FillRight and stripansi.Strip); user meta functions preserve display width (assumption M); fillers and decorators emit no line feed; UTF-8 validity is not modelled; A-SYNC for synchronised columns (the reply on a width channel is >= the width sent; the peer is verified under C12)", ref="4 C07"),
 "C08": dict(
   text="Every obligation generated from internal.Percentage and internal.PercentageRound (no overflow, zero, full, range, integrality, nearest within 1/2 + width*2^-50) is discharged for all uint/int64 inputs and width <= 2^31; float64 is axiomatised (correct rounding, relative error 2^-53).",
   note="float64 axioms (DESIGN 2.4), go/ssa, SMT solvers; the filler part of the statement (filled cells, refill) is covered under C07's contracts of bFiller.Fill", ref="4 C08"),
 "C09": dict(
   text="Each mutator/getter closure of bar.go is verified against the documented step rule (postconditions transcribed from the statement, with frame conditions), for every pre-state and argument, hence for histories of any length.",
   note="A-ACT (closures sent to the bar goroutine run once, one at a time, on the owner); go/ssa; SMT solvers", ref="4 C09"),
 "C11": dict(
   text="Exclusivity is a postcondition of the one function that computes completion; stability clauses S1/S2 are postconditions of every closure that can change the state, for every pre-state.",
   note="A-ACT; go/ssa; SMT solvers; one recorded finding (int64 wrap-around in IncrInt64, KNOWN_FINDINGS.txt)", ref="4 C11"),
 "C19": dict(
   text="Every method and constructor of proxyreader.go/proxywriter.go is verified: one underlying call with the caller's arguments, results returned unchanged, one increment by exactly the byte count returned, the fast path (WriterTo/ReaderFrom) offered iff the wrapped value has it (type-invariants make the unchecked assertions safe), the ewma flavour chosen iff asked for, and each moving-average decorator is handed every sample with its duration.",
   note="call records count the direct calls of each function (modular: IncrBy -> IncrInt64 -> closure are separate contracts); io.NopCloser forwards WriterTo (go >= 1.20, assumed); behaviour of the wrapped reader/writer is not constrained", ref="4 C19"),
 "C20": dict(
   text="Proved for all inputs: the unit handed to the formatter is the largest that fits (both size types), the number handed to strconv is value/unit (one correctly rounded float division), verb/precision/space-flag/suffix handling, exactly one write; the h/m/s decomposition is exact for 0 <= d < 60 h and the fields are passed in the right order; the estimators conserve time (a sample without progress is carried, at most one Add with (carried+dur)/n, no division by zero); elapsed time and average speed are frozen after completion; percentage conversions are in range on the documented domain. Read-back accuracy of the printed digits is strconv's and is not proved.",
   note="strconv.AppendFloat, fmt.State/fmt.Sprintf, ewma.MovingAverage, time.* (assumed contracts); time.Since(start) > 0 (start strictly in the past); float64 axioms; ETA products may wrap (noovf) outside the documented domain", ref="4 C20"),
}

NA = {
 "C01": "liveness over all goroutine interleavings; per-function contracts have no notion of another goroutine making progress (DESIGN.md section 4, C01)",
 "C16": "goroutine lifetime is a whole-history liveness property; contracts can show an exit arm exists, not that it is taken (DESIGN.md section 4, C16)",
}

ALL = ["C%02d" % i for i in range(1, 21)]

def main():
    here = os.path.dirname(os.path.dirname(os.path.abspath(__file__)))
    checks = []
    for pid in ALL:
        if pid not in CLAIMED:
            continue
        c = CLAIMED[pid]
        checks.append({
            "property_id": pid,
            "quick_cmd": "/verif/bin/gowp check --prop %s --tier quick" % pid,
            "thorough_cmd": "/verif/bin/gowp check --prop %s --tier thorough" % pid,
            "evidence_file": "/verif/evidence/%s.json" % pid,
            "replay_cmd_template": "cat {path}",
            "engine": "gowp",
            "level_claimed": {"category": "proof", "text": c["text"], "design_ref": "DESIGN.md section " + c["ref"]},
            "level_note": c["note"],
            "technique": TECH,
        })
    na = []
    for pid in ALL:
        if pid in CLAIMED:
            continue
        na.append({"property_id": pid, "reason": NA.get(pid, "contracts for this property are not yet discharged in this revision of /verif (work in progress, see DESIGN.md section 10); not claimed until they are")})
    hooks_commits = []
    try:
        import subprocess
        out = subprocess.run(["git", "-C", "/repo", "log", "--format=%h %s"], capture_output=True, text=True).stdout
        for ln in out.splitlines():
            if ln.split(" ", 1)[1].startswith("verif:"):
                hooks_commits.append(ln.split(" ", 1)[0])
    except Exception:
        pass
    m = {
        "version": 1,
        "setup_cmd": "cd /verif/engine && %s go build -o /verif/bin/gowp ./cmd/gowp" % GO,
        "hooks": {
            "guard": "verif",
            "enable": "go build -tags verif: the tag adds comment-only contract files (contracts_verif.go, //go:build verif) read by gowp; no executable hooks",
            "baseline_off_cmd": "cd /repo && GOFLAGS=-mod=mod GOPROXY=off GOSUMDB=off GOTOOLCHAIN=local go test -json -vet=off -count=1 -timeout 25m ./...",
            "source_commits": hooks_commits,
            "add_only": True,
        },
        "engines": [{"name": "gowp", "path": "/verif/engine", "serves_properties": sorted(CLAIMED),
                     "kind_free_text": "VC generator over naive-form go/ssa of /repo with contracts in //go:build verif comment files; obligations discharged by z3-new / cvc5 / z3"}],
        "checks": checks,
        "not_applicable": na,
        "notes": "See DESIGN.md. Known findings: KNOWN_FINDINGS.txt. Ledgers of contract-level obligations: ledger/<id>.json.",
    }
    with open(os.path.join(here, "MANIFEST.json"), "w") as f:
        json.dump(m, f, indent=1)
        f.write("\n")

if __name__ == "__main__":
    main()
