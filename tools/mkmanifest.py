#!/usr/bin/env python3
"""Regenerates /verif/MANIFEST.json from the table below (kept in one place so the
manifest stays valid and in step with what the engine actually checks)."""
import json, os

GO = "GOFLAGS=-mod=vendor GOPROXY=off GOSUMDB=off GOTOOLCHAIN=local"
TECH = "contract-based deductive verification: path-wise verification conditions generated from naive-form go/ssa of /repo against //@ contracts (pre/postconditions, loop and type invariants, frames, channel-role invariants, mechanical interface/function-value refinement), discharged by z3 5.1 / cvc5 / z3 4.8; every run closed over the contracted callees of its functions"

CLAIMED = {
 "C02": dict(
   text="No-panic half: every function of the module (mpb, decor, cwriter, internal; 1900+ named obligations) is swept for nil dereference, index/slice bounds, integer division by zero, failed type assertion, negative make, nil-map write, send on / close of a closed channel and double close, each discharged for all inputs satisfying the callee-side preconditions that are themselves proved at every call site and go statement. Late-call half: the public getters/mutators/Add/Write are proved to return the documented late values (ErrDone, (0, ErrDone), final getter values, no effect) on the arm taken when the owner goroutine is gone. The no-hang half is a liveness property and is not decided (see C01).",
   note="sequential per-function proof; goroutines are composed through channel-role invariants (proved at every send, assumed at every receive) and the go-site stability rule; external packages under assumed contracts (ext.go); integers exact with 64-bit ranges; hang-freedom not covered", ref="4 C02"),
 "C03": dict(
   text="Per-function postconditions that the final frame is built from final states: bState.draw sends exactly one frame per request and that frame is marked terminal iff the bar is completed or aborted; flush cancels a bar exactly when its frame says shutdown, removes (never re-pushes) a bar set to be removed; serve renders at least once more after the loop ends when auto-refreshing; the heap manager answers the state request. Proved for every pre-state; that the rendered bytes show current==total uses C07/C20's decorator contracts.",
   note="whole-history composition (the last render happens after every bar's last update) rests on A-ACT and the channel invariants, which are assumed at receives; 'no byte after Wait' is covered by the serve contract's closing clause only", ref="4 C03"),
 "C04": dict(
   text="Frame geometry as postconditions: flush never collects more rows than the height it is given (clip, rowsfit), writes each collected row whole and in order, and calls Writer.Flush once with the number of rows that stay (rows - popped); render hands flush a height strictly below the terminal height on a terminal (fits) and the width as height otherwise; cwriter.Flush emits cursor-up by exactly the previous line count followed by erase-down and then the buffer (cwriter contract). Proved for all inputs; one defect found by the fits obligation and repaired (a frame as tall as the terminal scrolled).",
   note="the terminal's interpretation of CUU/ED is the assumed meaning of the two escape sequences; a row is one terminal line because C07 bounds its width; delayed start writes to io.Discard (delay invariant)", ref="4 C04"),
 "C05": dict(
   text="Conservation through the heap manager and flush, as per-iteration postconditions of the real loops: a push adds exactly one bar to the heap; an iteration request sends every heap member once, in heap order, and closes the stream; popping delivers each bar once and removes it; flush pushes back exactly one entry per received bar on the normal/kept arms, pushes the successor instead of a finished predecessor, pushes nothing for removed/popped bars, and performs the collected pushes in FIFO order after the receive loop; Add pushes the new bar exactly once unless it is parked behind a live predecessor; end closes the manager. One defect (push could drop a bar) found and repaired earlier.",
   note="heap membership is the ghost inheap/hord model of container/heap (assumed contract, ext.go heapModel); across goroutines the request/answer pairing is the channel-role invariant", ref="4 C05"),
 "C06": dict(
   text="Priority order as postconditions: popping the heap yields bars in non-decreasing priority given the heap was ordered (order), heap.Fix is called for a bar still in the heap and skipped otherwise (fixed/unfixed), flush leaves priorities alone except that a successor takes its predecessor's priority and a popped bar gets the running pop priority, and Add numbers bars by creation order. priorityQueue.Less/Swap/Push/Pop are verified against the index-consistency type invariant.",
   note="container/heap's ordering guarantee is an assumed contract over the proved Less; the 'one unordered frame after a lazy change' is expressed by the hdirty ghost", ref="4 C06"),
 "C10": dict(
   text="Atomicity as a contract shape: every public bar/container operation performs at most one send on the owner's channel and touches no bar state itself (frame conditions: modifies only sent(...)), every state change happens inside a closure that runs on the owner (A-ACT), and the late arms read only the state published by closing bsOk (published). Together these give one linearisation point per operation; the step taken at that point is C09's contract. Static obligations on SSA: the state published through Bar.bs is written after publication only in its declared mutable field and exported getters read only frozen fields (found and fixed: Completed copied the whole struct), and no variable captured by a spawned closure is assigned by the spawner afterwards.",
   note="freedom from data races is argued from the frame conditions (static write sets per function), not from a happens-before model: the memory model itself is outside the contract language; Completed()'s late arm is covered only as far as its reads are of published state", ref="4 C10"),
 "C12": dict(
   text="Per-function contracts for the width exchange: syncWidth spawns one distributor per column, maxWidthDistributor answers every participant of a column with one common value that is at least each submitted width (maximum, common), WC.Format submits exactly once and receives exactly once when DSyncWidth is set and otherwise returns max(W, width + extra space) (own, exchange), bState.draw calls every decorator once; the heap manager keeps the sync flag and the column table per frame (syncflag, synced, syncframe).",
   note="that all bars of a frame take part in the same exchange is the heap-manager contract plus the channel invariants; the assumption that the column matrix is rectangular for bars with equal decorator counts is stated in the syncWidth contract", ref="4 C12"),
 "C13": dict(
   text="Progress.Write performs one send and returns what the owner answered; the owner's closure calls the underlying writer once with the caller's bytes and answers with its results (once, answer); a Write that finds the container done returns (0, ErrDone) and emits nothing (late); flush writes intercepted bytes before any bar row of the same frame and each row whole (whole, flushed); serve renders once more after the loop when auto-refreshing (finalframe). One recorded finding: in manual refresh mode nothing is rendered at shutdown, so bytes accepted after the last requested refresh are lost (KNOWN_FINDINGS.txt).",
   note="ordering across concurrent writers is the order of receives on one channel (A-ACT); bytes are abstract strings with exact concatenation", ref="4 C13"),
 "C14": dict(
   text="Exactly-once notification as postconditions: the heap manager closes itself and starts the notifier goroutine once per end request; Bar.serve starts one shutdown-listener notification per listener and counts each with the WaitGroup (once, counted); the listener collection walks every wrapped decorator (every); serve issues the end request exactly once with the configured notifier (ended).",
   note="that cancellation is observed by every bar is a liveness/ordering statement handled by the channel-role 'closing' clauses; 'before Wait returns' relies on sync.WaitGroup's assumed contract", ref="4 C14"),
 "C15": dict(
   text="Error path as postconditions: a draw error closes iterDrop exactly once and flush returns it without calling Writer.Flush (errdrop, once); render returns an error without flushing when the terminal size is unavailable (noframe); serve cancels once, stops selecting on requests, reports the error exactly once to the debug writer and renders no further frame (errstop, cancelonce, reported, noframeaftererror); extenders leave no partial row on error (onerror, drained). One recorded finding: maxWidthDistributor stops answering once a participant is dropped (KNOWN_FINDINGS.txt).",
   note="'Wait returns' is liveness and only covered as far as the closing clauses go", ref="4 C15"),
 "C17": dict(
   text="Queueing as postconditions of Add's closure and flush: a bar created to queue after a live predecessor is parked under it without overwriting an existing entry (nooverwrite, live), a bar created after a retired predecessor is pushed directly at the predecessor's priority (accounted), and when the predecessor's last frame is flushed its successor is pushed in its place with its priority and the predecessor is marked retired (successor, retired, slot). Two defects (successor lost when the predecessor had already finished; second successor overwrote the first) found by these obligations and repaired.",
   note="'eventually displayed' is the per-frame step only; across frames it relies on the heap-manager conservation of C05", ref="4 C17"),
 "C18": dict(
   text="Pop-completed mode as per-iteration postconditions of flush: a finished, poppable bar without successor is given the pop priority and pushed once more (toppop), on its final visit it is counted into popCount and not pushed again (popped), no-pop bars are kept (kept, nopoponkeep), and Writer.Flush is told to keep rows - popCount lines so the popped rows stay above (flushed). One recorded finding: a popped bar whose rows are clipped is dropped without having been shown (KNOWN_FINDINGS.txt).",
   note="'stays on screen unchanged' depends on the terminal model of C04", ref="4 C18"),
 "C07": dict(
   text="Row width: bState.draw is verified to return a row whose display width is at most the width it was given, from (i) the interface contract of decorators (reported width = display width; an obligation for every built-in Decor/Format, assumed for user decorators), (ii) the filler interface contract (emitted width <= available; proved for the bar, spinner and nop fillers) and (iii) the truncation branch. The bar body is proved to occupy exactly the allotted width (bFiller.Fill, sFiller.Fill, both flush closures, the three spinner position closures), every loop of the fillers has a proved variant (termination), struct invariants (non-empty tip frames, width = display width of the bytes, non-nil meta functions) are established by the builders and written only during construction.",
   note="display width is an additive abstract measure dw (assumed contracts of runewidth.StringWidth/Truncate/FillLeft/FillRight and stripansi.Strip); user meta functions preserve display width (assumption M); fillers and decorators emit no line feed; UTF-8 validity is not modelled; A-SYNC for synchronised columns (the reply on a width channel is >= the width sent; the peer is verified under C12)", ref="4 C07"),
 "C08": dict(
   text="Every obligation generated from internal.Percentage and internal.PercentageRound (no overflow, zero, full, range, integrality, nearest within 1/2 + width*2^-50) is discharged for all uint/int64 inputs and width <= 2^31; float64 is axiomatised (correct rounding, relative error 2^-53).",
   note="float64 axioms (DESIGN 2.4), go/ssa, SMT solvers; the filler part of the statement (filled cells, refill) is covered under C07's contracts of bFiller.Fill", ref="4 C08"),
 "C09": dict(
   text="Each mutator/getter closure of bar.go is verified against the documented step rule (postconditions transcribed from the statement, with frame conditions), for every pre-state and argument, hence for histories of any length.",
   note="A-ACT (closures sent to the bar goroutine run once, one at a time, on the owner); go/ssa; SMT solvers", ref="4 C09"),
 "C11": dict(
   text="Exclusivity is a postcondition of the one function that computes completion; stability clauses S1/S2 are postconditions of every closure that can change the state, for every pre-state.",
   note="A-ACT; go/ssa; SMT solvers; one recorded finding (int64 wrap-around in IncrInt64, KNOWN_FINDINGS.txt)", ref="4 C11"),
 "C19": dict(
   text="Every method and constructor of proxyreader.go/proxywriter.go is verified: one underlying call with the caller's arguments, results returned unchanged, one increment by exactly the byte count returned, the fast path (WriterTo/ReaderFrom) offered iff the wrapped value has it (type-invariants make the unchecked assertions safe), the ewma flavour chosen iff asked for, and each moving-average decorator is handed every sample with its duration.",
   note="call records count the direct calls of each function (modular: IncrBy -> IncrInt64 -> closure are separate contracts); io.NopCloser forwards WriterTo (go >= 1.20, assumed); behaviour of the wrapped reader/writer is not constrained", ref="4 C19"),
 "C20": dict(
   text="Proved for all inputs: the unit handed to the formatter is the largest that fits (both size types), the number handed to strconv is value/unit (one correctly rounded float division), verb/precision/space-flag/suffix handling, exactly one write; the h/m/s decomposition is exact for 0 <= d < 60 h and the fields are passed in the right order; the estimators conserve time (a sample without progress is carried, at most one Add with (carried+dur)/n, no division by zero); elapsed time and average speed are frozen after completion; percentage conversions are in range on the documented domain. Read-back accuracy of the printed digits is strconv's and is not proved.",
   note="strconv.AppendFloat, fmt.State/fmt.Sprintf, ewma.MovingAverage, time.* (assumed contracts); time.Since(start) > 0 (start strictly in the past); float64 axioms; ETA products may wrap (noovf) outside the documented domain", ref="4 C20"),
}

NA = {
 "C01": "liveness over all goroutine interleavings; per-function contracts have no notion of another goroutine making progress (DESIGN.md section 4, C01)",
 "C16": "goroutine lifetime is a whole-history liveness property; contracts can show an exit arm exists, not that it is taken (DESIGN.md section 4, C16)",
}

ALL = ["C%02d" % i for i in range(1, 21)]

def main():
    here = os.path.dirname(os.path.dirname(os.path.abspath(__file__)))
    checks = []
    for pid in ALL:
        if pid not in CLAIMED:
            continue
        c = CLAIMED[pid]
        checks.append({
            "property_id": pid,
            "quick_cmd": "/verif/bin/gowp check --prop %s --tier quick" % pid,
            "thorough_cmd": "/verif/bin/gowp check --prop %s --tier thorough" % pid,
            "evidence_file": "/verif/evidence/%s.json" % pid,
            "replay_cmd_template": "cat {path}",
            "engine": "gowp",
            "level_claimed": {"category": "proof", "text": c["text"], "design_ref": "DESIGN.md section " + c["ref"]},
            "level_note": c["note"],
            "technique": TECH,
        })
    na = []
    for pid in ALL:
        if pid in CLAIMED:
            continue
        na.append({"property_id": pid, "reason": NA.get(pid, "contracts for this property are not yet discharged in this revision of /verif (work in progress, see DESIGN.md section 10); not claimed until they are")})
    hooks_commits = []
    try:
        import subprocess
        out = subprocess.run(["git", "-C", "/repo", "log", "--format=%h %s"], capture_output=True, text=True).stdout
        for ln in out.splitlines():
            if ln.split(" ", 1)[1].startswith("verif:"):
                hooks_commits.append(ln.split(" ", 1)[0])
    except Exception:
        pass
    m = {
        "version": 1,
        "setup_cmd": "cd /verif/engine && %s go build -o /verif/bin/gowp ./cmd/gowp" % GO,
        "hooks": {
            "guard": "verif",
            "enable": "go build -tags verif: the tag adds comment-only contract files (contracts_verif.go, //go:build verif) read by gowp; no executable hooks",
            "baseline_off_cmd": "cd /repo && GOFLAGS=-mod=mod GOPROXY=off GOSUMDB=off GOTOOLCHAIN=local go test -json -vet=off -count=1 -timeout 25m ./...",
            "source_commits": hooks_commits,
            "add_only": True,
        },
        "engines": [{"name": "gowp", "path": "/verif/engine", "serves_properties": sorted(CLAIMED),
                     "kind_free_text": "VC generator over naive-form go/ssa of /repo with contracts in //go:build verif comment files; obligations discharged by z3-new / cvc5 / z3"}],
        "checks": checks,
        "not_applicable": na,
        "notes": "See DESIGN.md. Known findings: KNOWN_FINDINGS.txt. Ledgers of contract-level obligations: ledger/<id>.json.",
    }
    with open(os.path.join(here, "MANIFEST.json"), "w") as f:
        json.dump(m, f, indent=1)
        f.write("\n")

if __name__ == "__main__":
    main()
