#!/usr/bin/env python3
"""smtcore.py file.smt2 [--keep-goal]: greedy minimal unsat core of the assertions of a gowp VC (debugging aid)."""
import sys, subprocess, tempfile, os
src = open(sys.argv[1]).read().split('\n')
keep_goal = '--keep-goal' in sys.argv
decl = [l for l in src if not l.startswith('(assert') and not l.startswith('(check-sat') and not l.startswith('(get-model')]
asserts = [l for l in src if l.startswith('(assert')]
goal = asserts[-1]
if not keep_goal:
    asserts = asserts[:-1]
def unsat(a):
    with tempfile.NamedTemporaryFile('w', suffix='.smt2', delete=False) as f:
        f.write('\n'.join(decl + a + ['(check-sat)']))
        n = f.name
    try:
        out = subprocess.run(['z3-new', '-T:10', n], capture_output=True, text=True).stdout
    finally:
        os.unlink(n)
    return out.strip().startswith('unsat')
if not unsat(asserts):
    print('not unsat'); sys.exit(0)
core = list(asserts)
i = 0
while i < len(core):
    if keep_goal and core[i] is goal:
        i += 1; continue
    t = core[:i] + core[i+1:]
    if unsat(t):
        core = t
    else:
        i += 1
for c in core:
    print(c[:600])
