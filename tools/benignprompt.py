#!/usr/bin/env python3
"""Prompt for agents producing behaviour-preserving refactorings (false-alarm test).
usage: benignprompt.py <name> <file> [<file> ...]"""
import sys
name = sys.argv[1]; files = sys.argv[2:]
import os
extra = os.environ.get("BENIGN_EXTRA", "")
print(f"""You are helping evaluate a verification tool for false alarms. Your job: make realistic, BEHAVIOUR-PRESERVING changes to a Go library - the everyday edits a maintainer makes that do not change what the code does - so that we can check the tool stays quiet on them.

The library is vbauerster/mpb (multi progress bars for terminals). You have your own scratch git worktree at /tmp/wt/{name} (work ONLY there; do not touch /repo or /verif, and do not read anything under /verif). The sandbox is offline: prefix every shell command that uses go with
  export GOFLAGS=-mod=mod GOPROXY=off GOSUMDB=off GOTOOLCHAIN=local
(environment does not persist between commands).

Your changes must be made in these source files (and only these): {', '.join(files)}

Produce FOUR independent changes (A, B, C, D), each a different KIND of harmless edit, chosen from kinds like these:
 - rename a local variable, a parameter or a named result (consistently) to a better name;
 - reorder two adjacent statements that are independent of each other;
 - introduce a local variable for a repeated sub-expression, or inline a single-use local;
 - add a small helper closure or function used for logging/tracing that has no effect (e.g. `dbg := func(string) {{}}; dbg("x")`), or add a closure earlier in a function than existing closures;
 - rewrite a condition into an equivalent form (`!(a && b)` as `!a || !b`, `x >= 1` as `x > 0` for ints, swap the arms of an if/else with the condition negated, turn an if-else chain into a switch or back);
 - change a loop into an equivalent loop form (index loop <-> range loop over the same slice, `for i := 0; i < n; i++` <-> `for i := range n` is NOT available in this Go version, so stay with forms that compile);
 - add or reword comments, reformat, reorder declarations of unrelated struct fields' doc comments (but do NOT reorder struct fields themselves);
 - extract a few lines into a new unexported helper function with the same behaviour, or inline a tiny helper.
{extra}
Each change must
 1. be small (a handful of lines) and touch only non-test .go files from your list (no test files, no go.mod, no *_verif.go file);
 2. preserve behaviour EXACTLY for every input and every schedule: same results, same side effects, same order of channel operations and goroutine starts, same panics, same output bytes. If you are not sure an edit preserves behaviour, do not use it;
 3. compile (`go build ./...`) and pass the whole existing test suite: `go test -vet=off -count=1 -timeout 20m ./...` (a few tests are timing-based; re-run once if a failure looks unrelated).
Develop each change from a clean tree (`git checkout -- .` in between; do NOT use `git stash`, `git commit`, `git branch`).

Save, for each of A, B, C, D (create directories as needed):
  /tmp/seed/{name}/<X>/patch.diff   - `git diff` of the change, applicable with `git apply` at the worktree root
  /tmp/seed/{name}/<X>/meta.json    - {{"kind": "<kind of edit>", "summary": "...one line...", "files": [...], "functions": [...], "why_equivalent": "one or two sentences", "suite_passes": true}}
Leave the worktree clean (`git checkout -- . && git clean -fd`) when done. In your final answer list the four changes with kind, function and the equivalence argument.""")
