#!/bin/bash
# usage: runall.sh [tier] -- every claimed property's check on /repo, sequentially; prints one line per property
tier=${1:-quick}
for p in $(python3 -c "import json;print(' '.join(c['property_id'] for c in json.load(open('/verif/MANIFEST.json'))['checks']))"); do
  s=$(date +%s)
  out=$(/verif/bin/gowp check --prop $p --tier $tier 2>&1); rc=$?
  echo "$p rc=$rc $(( $(date +%s)-s ))s viol=$(echo "$out" | grep -c '^VIOLATION') known=$(echo "$out" | grep -c '^KNOWN-FINDING')"
  echo "$out" | grep '^VIOLATION' | cut -c1-220
done
